#!/usr/bin/env python
"""C06 / h3: the in-process push path (LocalGitClient.send_pack) points a
server ref at an object the server does not have, and reports success.

ReceivePackHandler refuses such an update ("ng <ref> missing necessary
objects", commit dfc2766).  The sibling implementation of the same operation,
LocalGitClient.send_pack -- what porcelain.push() uses for every path / file://
remote -- goes straight from add_pack_data() to refs.set_if_equals() and never
looks whether the new value exists in the target object store.

Scenario A (only public porcelain, ordinary repositories): the target is a
shallow repository (exactly what `git clone --depth 1` leaves behind).  The
source pushes a branch whose tip is an ancestor of the target's shallow tip.
The tip is reachable from a "have", so the generated pack is empty, and the
target -- which does not have that commit -- gets the ref anyway.

Scenario B (the quantified case "new value not contained in the sent pack"):
update_refs names a commit, generate_pack_data delivers a pack without it;
plain and atomic.

Expected (property C06): the ref is left untouched and reported as failed (as
receive-pack over pkt-line does for the very same input, shown for comparison;
C git: "! [remote rejected] old -> old (missing necessary objects)").
Exit 1 if afterwards a ref of the target names an object the target lacks, or
success is reported for a ref that does not hold the requested value / failure
for one that does.
"""

import io
import os
import shutil
import sys
import tempfile
from io import BytesIO

import dulwich

assert dulwich.__file__.startswith("/repo/"), dulwich.__file__

from dulwich import porcelain
from dulwich.client import LocalGitClient, ReportStatusParser
from dulwich.object_format import DEFAULT_OBJECT_FORMAT
from dulwich.objects import Blob, Commit, Tree
from dulwich.pack import write_pack_objects
from dulwich.protocol import Protocol, pkt_line
from dulwich.repo import Repo
from dulwich.server import FileSystemBackend, ReceivePackHandler

ZERO = b"0" * 40


def make_commit(msg, parents=(), store=None):
    blob = Blob.from_string(b"content of " + msg)
    tree = Tree()
    tree.add(b"f", 0o100644, blob.id)
    c = Commit()
    c.tree = tree.id
    c.parents = list(parents)
    c.author = c.committer = b"T <t@example.com>"
    c.author_time = c.commit_time = 1700000000
    c.author_timezone = c.commit_timezone = 0
    c.message = msg
    objs = [blob, tree, c]
    if store is not None:
        for o in objs:
            store.add_object(o)
    return c, objs


def dangling_refs(path):
    with Repo(path) as r:
        return {
            ref: sha
            for ref, sha in r.refs.as_dict().items()
            if sha not in r.object_store
        }


def ref_value(path, ref):
    with Repo(path) as r:
        try:
            return r.refs[ref]
        except KeyError:
            return ZERO


def check(name, path, ref, new, failed_msg):
    """failed_msg: None if the push reported success for ref, else the error."""
    problems = []
    value = ref_value(path, ref)
    print(
        f"[{name}] {ref.decode()} -> {value[:8].decode()} "
        f"(requested {new[:8].decode()}); push said: "
        f"{'success' if failed_msg is None else 'failed: ' + str(failed_msg)}"
    )
    for r, sha in dangling_refs(path).items():
        problems.append(
            f"server ref {r.decode()} names {sha.decode()}, an object the server does not have"
        )
    if (failed_msg is None) != (value == new):
        problems.append("reported status does not match the value read back")
    for p in problems:
        print(f"[{name}] PROBLEM: {p}")
    return not problems


def receive_pack_over_pktline(path, commands, caps, pack_objects):
    inp = BytesIO()
    first = True
    for old, new, ref in commands:
        line = old + b" " + new + b" " + ref
        if first:
            line += b"\x00" + b" ".join(caps)
            first = False
        inp.write(pkt_line(line + b"\n"))
    inp.write(pkt_line(None))
    write_pack_objects(
        inp.write, [(o, None) for o in pack_objects], DEFAULT_OBJECT_FORMAT
    )
    inp.seek(0)
    out = BytesIO()
    handler = ReceivePackHandler(
        FileSystemBackend(path), ["."], Protocol(inp.read, out.write), stateless_rpc=True
    )
    try:
        handler.handle()
    finally:
        handler.repo.close()
    out.seek(0)
    parser = ReportStatusParser()
    for pkt in Protocol(out.read, lambda d: None).read_pkt_seq():
        parser.handle_packet(pkt)
    parser.handle_packet(None)
    return dict(parser.check())


def make_shallow_target(path, tip_objs, tip_id):
    """A bare repository that holds only the tip commit, marked shallow --
    the state `git clone --bare --depth 1` produces."""
    with Repo.init_bare(path, mkdir=True) as t:
        for o in tip_objs:
            t.object_store.add_object(o)
        t.update_shallow([tip_id], [])
        t.refs[b"refs/heads/master"] = tip_id


def scenario_shallow_target():
    tmp = tempfile.mkdtemp(prefix="c06-h3a-")
    ok = True
    try:
        src = os.path.join(tmp, "src")
        with Repo.init(src, mkdir=True) as r:
            c1, _ = make_commit(b"c1", store=r.object_store)
            c2, _ = make_commit(b"c2", [c1.id], store=r.object_store)
            c3, c3_objs = make_commit(b"c3", [c2.id], store=r.object_store)
            r.refs[b"refs/heads/master"] = c3.id
            r.refs[b"refs/heads/old"] = c1.id

        # comparison: the same push through receive-pack over pkt-line
        tgt0 = os.path.join(tmp, "tgt-pktline.git")
        make_shallow_target(tgt0, c3_objs, c3.id)
        report = receive_pack_over_pktline(
            tgt0,
            [(ZERO, c1.id, b"refs/heads/old")],
            [b"report-status", b"ofs-delta"],
            [],  # what the client would send: c1 is reachable from the have c3
        )
        ok &= check(
            "A: shallow target, pkt-line receive-pack (for comparison)",
            tgt0,
            b"refs/heads/old",
            c1.id,
            report.get(b"refs/heads/old", "no status"),
        )

        # the in-process path, through the public porcelain
        tgt = os.path.join(tmp, "tgt.git")
        make_shallow_target(tgt, c3_objs, c3.id)
        err = io.BytesIO()
        result = porcelain.push(
            src,
            tgt,
            b"refs/heads/old:refs/heads/old",
            outstream=io.BytesIO(),
            errstream=err,
        )
        print("[A] porcelain.push said:", err.getvalue().decode().strip().splitlines())
        ok &= check(
            "A: shallow target, porcelain.push to a local path",
            tgt,
            b"refs/heads/old",
            c1.id,
            (result.ref_status or {}).get(b"refs/heads/old"),
        )
    finally:
        shutil.rmtree(tmp, ignore_errors=True)
    return ok


def scenario_value_not_in_pack(atomic):
    tmp = tempfile.mkdtemp(prefix="c06-h3b-")
    try:
        tgt = os.path.join(tmp, "tgt.git")
        with Repo.init_bare(tgt, mkdir=True) as t:
            a0, _ = make_commit(b"a0", store=t.object_store)
            t.refs[b"refs/heads/master"] = a0.id
        ghost, _ = make_commit(b"a commit that is sent nowhere", [a0.id])

        def update_refs(refs):
            return {b"refs/heads/master": ghost.id}

        def generate_pack_data(have, want, *, ofs_delta=False, progress=None):
            return 0, iter([])  # a valid, empty pack

        result = LocalGitClient().send_pack(
            tgt, update_refs, generate_pack_data, atomic=atomic
        )
        return check(
            f"B: value not in pack, LocalGitClient.send_pack(atomic={atomic})",
            tgt,
            b"refs/heads/master",
            ghost.id,
            (result.ref_status or {}).get(b"refs/heads/master"),
        )
    finally:
        shutil.rmtree(tmp, ignore_errors=True)


def main():
    ok = scenario_shallow_target()
    ok = scenario_value_not_in_pack(False) and ok
    ok = scenario_value_not_in_pack(True) and ok
    if not ok:
        print("FAIL: property C06 violated (server ref names an object the server lacks)")
        return 1
    print("OK: no server ref names a missing object; statuses match")
    return 0


if __name__ == "__main__":
    sys.exit(main())
