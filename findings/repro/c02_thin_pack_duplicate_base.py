#!/usr/bin/env python
"""C02 / h1: completing a thin pack written by C git (REF_DELTA only, i.e.
pack-objects without --delta-base-offset) stores one object twice, and C git
then rejects the pack dulwich wrote.

Scenario (a plain "revert" push/fetch):

  receiver has   c1: f.txt = V1        c2: f.txt = V2
  sender adds    c3: f.txt = V1 again (revert), e.txt = V0 (close to V1)

  git pack-objects --thin --stdout --revs  <<< "c3 ^c2"      (no --delta-base-offset)

sends  commit c3, its tree, blob V1 as REF_DELTA against V2 (V2 is not in the
pack: thin), and blob V0 as REF_DELTA against V1 (which is in the pack).  The
receiver already owns V1 (from c1) - git resends it because only the tree of
the boundary commit c2 is excluded.

DiskObjectStore.add_thin_pack() must complete the pack with the ONE missing
base (V2), like `git index-pack --fix-thin` does.  Instead it also appends a
second, full copy of V1, because DeltaChainIterator._walk_ref_chains asks the
object store for every still-pending REF_DELTA base in sorted order - and V1,
which sorts before V2 here, is "found" in the store although the pack itself
holds it.

Exit status 1 = the violation happened, 0 = the library behaved.
"""

import collections
import hashlib
import os
import shutil
import subprocess
import sys
import tempfile
from io import BytesIO

import dulwich

ROOT = os.environ.get("DULWICH_ROOT", "/repo")
assert dulwich.__file__.startswith(ROOT), dulwich.__file__

from dulwich.pack import OFS_DELTA, REF_DELTA, PackStreamReader
from dulwich.repo import Repo


def blob_sha(data: bytes) -> str:
    return hashlib.sha1(b"blob %d\0" % len(data) + data).hexdigest()


def main() -> int:
    top = tempfile.mkdtemp(prefix="c02-h1-")
    env = dict(
        os.environ,
        HOME=top,
        GIT_CONFIG_NOSYSTEM="1",
        GIT_CEILING_DIRECTORIES=os.path.dirname(top),
        GIT_AUTHOR_NAME="a",
        GIT_AUTHOR_EMAIL="a@example.com",
        GIT_COMMITTER_NAME="a",
        GIT_COMMITTER_EMAIL="a@example.com",
        GIT_AUTHOR_DATE="1700000000 +0000",
        GIT_COMMITTER_DATE="1700000000 +0000",
    )
    for k in ("GIT_DIR", "GIT_WORK_TREE", "GIT_INDEX_FILE"):
        env.pop(k, None)

    def git(cwd, *args, **kw):
        return subprocess.run(
            ["git", "-c", "pack.threads=1", *args],
            cwd=cwd, env=env, check=True, capture_output=True, **kw
        )

    try:
        lines = [b"line %03d of the file, some padding to make it long\n" % i
                 for i in range(300)]
        v1 = b"".join(lines)
        # V2 = V1 with a few lines changed and a few appended (bigger than V1).
        # The nonce only makes sure that the name of V1 sorts before the name
        # of V2 - the order in which dulwich visits the pending bases.
        nonce = 0
        while True:
            l2 = list(lines)
            l2[10] = b"changed in v2 (%d)\n" % nonce
            l2[200] = b"also changed in v2\n"
            v2 = b"".join(l2) + b"appended in v2\n" * 3
            if blob_sha(v1) < blob_sha(v2):
                break
            nonce += 1
        # V0 = V1 with a few lines removed/changed (smaller than V1).
        l0 = list(lines)
        l0[100] = b"changed in v0\n"
        del l0[250:260]
        v0 = b"".join(l0)

        src = os.path.join(top, "sender")
        os.mkdir(src)
        git(src, "init", "-q", ".")

        def commit(msg, files):
            for name, data in files.items():
                with open(os.path.join(src, name), "wb") as f:
                    f.write(data)
            git(src, "add", "-A")
            git(src, "commit", "-q", "-m", msg)
            return git(src, "rev-parse", "HEAD").stdout.strip().decode()

        commit("c1", {"f.txt": v1})
        c2 = commit("c2", {"f.txt": v2})
        # the receivers know c1 and c2
        recv_dulwich = os.path.join(top, "receiver-dulwich.git")
        recv_git = os.path.join(top, "receiver-git.git")
        git(top, "clone", "-q", "--bare", src, recv_dulwich)
        git(top, "clone", "-q", "--bare", src, recv_git)
        c3 = commit("c3: revert f.txt, add e.txt", {"f.txt": v1, "e.txt": v0})

        thin = git(
            src, "pack-objects", "--thin", "--stdout", "--revs", "-q",
            input=("%s\n^%s\n" % (c3, c2)).encode(),
        ).stdout

        # What is in the thin pack?
        kinds = collections.Counter()
        ref_bases = []
        for u in PackStreamReader(hashlib.sha1, BytesIO(thin).read).read_objects():
            kinds[u.pack_type_num] += 1
            if u.pack_type_num == REF_DELTA:
                ref_bases.append(u.delta_base.hex())
        print("thin pack from C git: %d records, by pack type %s"
              % (sum(kinds.values()), dict(kinds)))
        print("  REF_DELTA bases:", ref_bases)
        print("  V1 =", blob_sha(v1), "(receiver has it, and it is in the pack)")
        print("  V2 =", blob_sha(v2), "(receiver has it, NOT in the pack)")
        shape_ok = (
            kinds[OFS_DELTA] == 0
            and blob_sha(v2) in ref_bases
            and blob_sha(v1) in ref_bases
        )
        if not shape_ok:
            print("NOTE: this git version chose other deltas than expected; "
                  "the scenario may not trigger")

        # Reference: C git completes the thin pack.
        out = git(recv_git, "index-pack", "--fix-thin", "--stdin", input=thin).stdout
        git_pack = os.path.join(
            recv_git, "objects", "pack", "pack-%s.idx" % out.split()[-1].decode())
        ref = git(recv_git, "verify-pack", "-v", git_pack).stdout.decode()
        n_git = sum(1 for l in ref.splitlines() if len(l.split()) >= 5 and len(l.split()[0]) == 40)
        print("C git index-pack --fix-thin: completed pack has %d objects" % n_git)

        # dulwich completes the same thin pack.
        repo = Repo(recv_dulwich)
        try:
            pack = repo.object_store.add_thin_pack(BytesIO(thin).read, None)
            basename = pack._basename
            entries = list(pack.index.iterentries())
            n_dulwich = len(pack.data)
            counts = collections.Counter(name for name, _o, _c in entries)
            dups = {n.hex(): c for n, c in counts.items() if c > 1}
            # contents still read back correctly?
            assert pack.get_raw(blob_sha(v1).encode())[1] == v1
            assert pack.get_raw(blob_sha(v0).encode())[1] == v0
        finally:
            repo.close()
        print("dulwich add_thin_pack: completed pack has %d objects, "
              "%d index entries, %d distinct names"
              % (n_dulwich, len(entries), len(counts)))

        failed = False
        if dups:
            failed = True
            print("VIOLATION: objects stored twice in the pack dulwich wrote:", dups)
        if n_dulwich != n_git:
            failed = True
            print("VIOLATION: dulwich appended %d base object(s), C git %d"
                  % (n_dulwich - sum(kinds.values()), n_git - sum(kinds.values())))
        for cmd in (
            ["verify-pack", basename + ".idx"],
            ["index-pack", "--strict", "-o", os.path.join(top, "check.idx"),
             basename + ".pack"],
        ):
            r = subprocess.run(["git", *cmd], cwd=recv_dulwich, env=env,
                               capture_output=True, text=True)
            print("git %s -> exit %d %s" % (cmd[0] + (" --strict" if "--strict" in cmd else ""),
                                            r.returncode, r.stderr.strip()))
            if r.returncode != 0:
                failed = True
                print("VIOLATION: C git rejects the pack written by dulwich")
        if failed:
            return 1
        print("OK: the thin pack was completed with exactly the missing base")
        return 0
    finally:
        shutil.rmtree(top, ignore_errors=True)


if __name__ == "__main__":
    sys.exit(main())
