#!/usr/bin/env python
"""C11 / h3: with core.ignorecase (or core.precomposeunicode) reading an index
merges entries whose paths differ only in case -- and mixes them up.

Repo.open_index() gives the Index a path_normalizer when core.ignorecase=true
(what `git init` sets on macOS and Windows).  Index.read() stores what it read
through Index.update() -> Index.__setitem__(), which first redirects the key
through canonical_path(): the second of two paths that normalise to the same
string ("README", "readme") is stored under the key of the FIRST.  The result of
reading an undamaged index that C git wrote is therefore one entry, carrying
the name of one file and the blob/stat data of the other; the next
Index.write() makes that permanent (one file staged as deleted, the other
staged with the wrong content).  C git keeps and lists both entries under
core.ignorecase=true.

Exit status: 1 = violation observed, 0 = library behaves as the property says.
"""

import os
import shutil
import subprocess
import sys
import tempfile

sys.path.insert(0, "/tmp/seed/C11")
import dulwich  # noqa: E402

assert os.path.dirname(dulwich.__file__) == os.path.join(os.environ.get("VERIF_REPO", "/repo"), "dulwich"), dulwich.__file__
from dulwich.index import Index  # noqa: E402
from dulwich.repo import Repo  # noqa: E402

ENV = dict(
    os.environ,
    GIT_CONFIG_GLOBAL="/dev/null",
    GIT_CONFIG_SYSTEM="/dev/null",
    GIT_CONFIG_NOSYSTEM="1",
    GIT_AUTHOR_NAME="a",
    GIT_AUTHOR_EMAIL="a@example.invalid",
    GIT_COMMITTER_NAME="a",
    GIT_COMMITTER_EMAIL="a@example.invalid",
)
problems = []


def git(cwd, *args, check=True, inp=None):
    return subprocess.run(
        ["git", *args], cwd=cwd, env=ENV, check=check, capture_output=True, input=inp
    )


def git_listing(repo):
    out = git(repo, "ls-files", "--stage", "-z").stdout
    res = []
    for rec in out.split(b"\0"):
        if rec:
            meta, name = rec.split(b"\t", 1)
            mode, sha, stage = meta.split(b" ")
            res.append((name, int(mode, 8), sha))
    return res


def dulwich_listing(idx):
    return sorted((name, e.mode, e.sha) for name, e in idx.items())


def main():
    tmp = tempfile.mkdtemp(prefix="c11-h3-")
    try:
        repo = os.path.join(tmp, "repo")
        os.mkdir(repo)
        git(repo, "init", "-q")
        # Two blobs; the index is filled without touching the work tree, so the
        # demo does not depend on the case sensitivity of the file system.
        upper = git(repo, "hash-object", "-w", "--stdin", inp=b"UPPER\n").stdout.strip()
        lower = git(repo, "hash-object", "-w", "--stdin", inp=b"lower\n").stdout.strip()
        other = git(repo, "hash-object", "-w", "--stdin", inp=b"other\n").stdout.strip()
        git(repo, "config", "core.ignorecase", "true")  # as on macOS / Windows
        git(
            repo, "update-index", "--index-info",
            inp=b"100644 " + upper + b"\tREADME\n"
            + b"100644 " + other + b"\tdocs/a.txt\n"
            + b"100644 " + lower + b"\treadme\n",
        )
        git(repo, "commit", "-qm", "two paths that differ in case only")
        # a fresh index for that commit, written by C git under core.ignorecase=true
        os.unlink(os.path.join(repo, ".git", "index"))
        git(repo, "read-tree", "HEAD")
        expected = git_listing(repo)
        print("C git (core.ignorecase=true) lists:")
        for n, m, s in expected:
            print(f"   {m:06o} {s.decode()}\t{n.decode()}")

        # 1. the ordinary way to get at the index
        r = Repo(repo)
        try:
            idx = r.open_index()
            got = dulwich_listing(idx)
            if got != sorted(expected):
                problems.append(
                    "Repo.open_index() does not yield the entries of the file:\n"
                    + "".join(f"     dulwich: {m:06o} {s.decode()}\t{n.decode()}\n" for n, m, s in got)
                    + "".join(f"     C git:   {m:06o} {s.decode()}\t{n.decode()}\n" for n, m, s in expected)
                )
            # 2. read, write back unchanged, let C git list it again
            idx.write()
        finally:
            r.close()
        after = git_listing(repo)
        if after != expected:
            problems.append(
                "after Repo.open_index().write() (no modification requested) C git lists:\n"
                + "".join(f"     {m:06o} {s.decode()}\t{n.decode()}\n" for n, m, s in after)
                + "     `git diff --cached --name-status`: "
                + git(repo, "diff", "--cached", "--name-status").stdout.decode().replace("\n", "; ")
            )

        # 3. same thing on the Index class alone, round trip of its own file
        git(repo, "read-tree", "HEAD")
        plain = Index(os.path.join(repo, ".git", "index"))  # no normaliser: reference
        norm = Index(os.path.join(repo, ".git", "index"), path_normalizer=bytes.lower)
        if dulwich_listing(norm) != dulwich_listing(plain):
            problems.append(
                "Index(path, path_normalizer=bytes.lower) reads "
                f"{[n for n, _m, _s in dulwich_listing(norm)]} from a file that holds "
                f"{[n for n, _m, _s in dulwich_listing(plain)]}"
            )
    finally:
        shutil.rmtree(tmp, ignore_errors=True)

    if problems:
        print("VIOLATION (C11: 'dulwich reads every index C git writes' / read-back yields the same entries):")
        for p in problems:
            print(" -", p)
        return 1
    print("ok: both case-variant entries survive reading and rewriting")
    return 0


if __name__ == "__main__":
    sys.exit(main())
