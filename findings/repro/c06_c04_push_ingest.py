import os, tempfile, shutil, sys, io
sys.path.insert(0,'/repo')
from dulwich.repo import Repo, MemoryRepo
from dulwich.objects import Blob, Tree, Commit, ZERO_SHA
from dulwich.refs import Ref
from dulwich.server import ReceivePackHandler, DictBackend
from dulwich.protocol import Protocol, pkt_line
from dulwich.pack import write_pack_objects, write_pack_data
from io import BytesIO

def mkcommit(store, parents, t, msg=b"m"):
    tr = Tree(); store.add_object(tr)
    c = Commit(); c.tree = tr.id; c.parents = parents
    c.author = c.committer = b"a <a@b>"; c.author_time = c.commit_time = t
    c.author_timezone = c.commit_timezone = 0; c.message = msg
    store.add_object(c); return c

# C06: stale old value -> reported ok?
d = tempfile.mkdtemp(dir=os.environ.get('TMPDIR','/tmp'))
r = Repo.init_bare(d)
c1 = mkcommit(r.object_store, [], 1, b"one")
c2 = mkcommit(r.object_store, [c1.id], 2, b"two")
r.refs[b"refs/heads/master"] = c2.id
# client thinks master is c1 (stale) and wants to set it to a missing object X
X = b"1"*40
inp = BytesIO()
inp.write(pkt_line(c1.id + b" " + X + b" refs/heads/master\0report-status"))
inp.write(pkt_line(None))
# empty pack with zero objects
from dulwich.pack import write_pack_header
pk = BytesIO()
import hashlib, struct
hdr = b"PACK" + struct.pack(">LL", 2, 0)
pk.write(hdr + hashlib.sha1(hdr).digest())
inp.write(pk.getvalue())
inp.seek(0)
out = BytesIO()
proto = Protocol(inp.read, out.write)
backend = DictBackend({b"/": r})
h = ReceivePackHandler(backend, [b"/"], proto, stateless_rpc=True)
h.handle()
print("C06 status:", out.getvalue())
print("C06 master still c2:", r.refs[b"refs/heads/master"] == c2.id)

# now correct old value but missing new object
inp = BytesIO()
inp.write(pkt_line(c2.id + b" " + X + b" refs/heads/master\0report-status"))
inp.write(pkt_line(None)); inp.write(pk.getvalue()); inp.seek(0)
out = BytesIO(); proto = Protocol(inp.read, out.write)
h = ReceivePackHandler(backend, [b"/"], proto, stateless_rpc=True); h.handle()
print("C06 status2:", out.getvalue())
print("C06 master now:", r.refs[b"refs/heads/master"], "object present:", r.refs[b"refs/heads/master"] in r.object_store)
r.close()

# C04 memory store partial ingestion
from dulwich.object_store import MemoryObjectStore
from dulwich.pack import UnpackedObject, REF_DELTA, create_delta
ms = MemoryObjectStore()
b1 = Blob.from_string(b"hello world "*10)
base_missing = Blob.from_string(b"hello world "*9 + b"x")
b2 = Blob.from_string(b"hello world "*9 + b"y")
delta = list(create_delta(base_missing.as_raw_chunks(), b2.as_raw_chunks()))
from dulwich.pack import full_unpacked_object
recs = [full_unpacked_object(b1), UnpackedObject(b2.type_num, sha=b2.sha().digest(), delta_base=base_missing.sha().digest(), decomp_chunks=delta)]
buf = BytesIO()
from dulwich.object_format import DEFAULT_OBJECT_FORMAT
write_pack_data(buf.write, iter(recs), num_records=2, object_format=DEFAULT_OBJECT_FORMAT)
buf.seek(0)
try:
    ms.add_thin_pack(buf.read, None)
    print("C04 mem: ingestion succeeded?!")
except Exception as e:
    print("C04 mem: failed with", type(e).__name__)
print("C04 mem: store unchanged after failure (expect []):", list(ms))
