import os, tempfile, shutil, sys, io, struct, zlib, hashlib
sys.path.insert(0,'/repo')
from dulwich.repo import Repo
from dulwich.objects import Blob, Tree, Commit, ZERO_SHA
from dulwich.refs import Ref
import dulwich.refs as drefs

def mkcommit(store, parents, t, msg=b"m", tree=None):
    if tree is None:
        tr = Tree(); store.add_object(tr); tree = tr.id
    c = Commit(); c.tree = tree; c.parents = parents
    c.author = c.committer = b"a <a@b>"; c.author_time = c.commit_time = t
    c.author_timezone = c.commit_timezone = 0; c.message = msg
    store.add_object(c); return c

# C09: add_packed_refs failure after loose removal
d = tempfile.mkdtemp(dir=os.environ.get('TMPDIR','/tmp'))
r = Repo.init(d)
c = mkcommit(r.object_store, [], 1)
r.refs[b"refs/tags/v1"] = c.id
orig = drefs.write_packed_refs
def boom(*a, **k): raise OSError(28, "ENOSPC")
drefs.write_packed_refs = boom
try:
    r.refs.pack_refs(all=True)
except OSError as e: print("C09 pack_refs raised", e)
drefs.write_packed_refs = orig
r.close(); r = Repo(d)
print("C09 ref survives failed pack_refs (expect True):", b"refs/tags/v1" in r.refs.allkeys())
r.close()

# C09/C08: remove_if_equals order: crash between loose removal and packed removal
d = tempfile.mkdtemp(dir=os.environ.get('TMPDIR','/tmp'))
r = Repo.init(d)
c1 = mkcommit(r.object_store, [], 1); c2 = mkcommit(r.object_store, [c1.id], 2)
r.refs[b"refs/heads/b"] = c1.id
r.refs.pack_refs(all=True)
r.refs[b"refs/heads/b"] = c2.id   # loose c2 overrides packed c1
class Crash(BaseException): pass
orig = r.refs._remove_packed_ref
def crash(name): raise Crash()
r.refs._remove_packed_ref = crash
try: r.refs.remove_if_equals(b"refs/heads/b", c2.id)
except Crash: pass
r.close(); r = Repo(d)
v = r.refs.read_ref(b"refs/heads/b")
print("C09 after crash in delete: value is old(c2) or absent? ->", "c1 (stale resurrected)" if v==c1.id else ("c2" if v==c2.id else v))
r.close()

# C17: delete through symlinked leading dir
from dulwich.index import update_working_tree
from dulwich.diff_tree import tree_changes
d = tempfile.mkdtemp(dir=os.environ.get('TMPDIR','/tmp'))
wt = os.path.join(d, "wt"); outside = os.path.join(d, "outside")
os.mkdir(outside); open(os.path.join(outside, "victim"), "wb").write(b"precious")
r = Repo.init(wt, mkdir=True)
blob = Blob.from_string(b"precious"); r.object_store.add_object(blob)
sub = Tree(); sub.add(b"victim", 0o100644, blob.id); r.object_store.add_object(sub)
t_old = Tree(); t_old.add(b"d", 0o40000, sub.id); r.object_store.add_object(t_old)
t_new = Tree(); r.object_store.add_object(t_new)
# work tree currently has symlink d -> ../outside (e.g. materialised by an earlier checkout)
os.symlink("../outside", os.path.join(wt, "d"))
try:
    update_working_tree(r, t_old.id, t_new.id, tree_changes(r.object_store, t_old.id, t_new.id), allow_overwrite_modified=True)
except Exception as e: print("C17 raised", type(e).__name__, e)
print("C17 outside victim survives (expect True):", os.path.exists(os.path.join(outside, "victim")))
r.close()
