#!/usr/bin/env python
"""C19 / h2: an EMPTY capability list does not survive the round trip.

format_ref_line(ref, sha, [])  ->  b"<sha> <ref>\\0\\n"  ->  extract_capabilities()  ->  [b""]   (expected [])

Consequence shown end to end: the command list that dulwich's own client writes when no capability was
negotiated ("<old> <new> <ref>\\0") is refused by dulwich's receive-pack with
"Client asked for capability b'' that was not advertised", while C git's receive-pack accepts the same bytes.

Run:  cd /repo && PYTHONPATH=/repo /venv/bin/python /repo-out/h2/demo.py
Exit 1 = violation observed, exit 0 = the empty list round-trips.
"""

import hashlib
import os
import shutil
import struct
import subprocess
import sys
import tempfile
from io import BytesIO

import dulwich

pass  # run against the installed dulwich (/repo)

from dulwich.client import _v1ReceivePackHeader, read_pkt_refs_v1
from dulwich.objects import Blob, Commit, Tree
from dulwich.protocol import (
    ZERO_SHA,
    Protocol,
    ReceivableProtocol,
    extract_capabilities,
    format_ref_line,
    pkt_line,
)
from dulwich.repo import Repo
from dulwich.server import FileSystemBackend, ReceivePackHandler

problems: list[str] = []


def check_unit() -> None:
    sha = b"1" * 40
    ref = b"refs/heads/main"
    for caps in ([], [b"report-status"], [b"report-status", b"agent=x/1"]):
        line = format_ref_line(ref, sha, caps)
        text, got = extract_capabilities(line)
        if text != sha + b" " + ref or got != caps:
            problems.append(
                f"extract_capabilities(format_ref_line(ref, sha, {caps!r})) = "
                f"({text!r}, {got!r}); expected capability list {caps!r}"
            )


def check_advertisement() -> None:
    """A ref advertisement whose first line carries an empty capability list."""
    sha = b"2" * 40
    stream = (
        pkt_line(format_ref_line(b"refs/heads/a", sha, []))
        + pkt_line(format_ref_line(b"refs/heads/b", sha))
        + pkt_line(None)
    )
    proto = Protocol(BytesIO(stream).read, None)
    refs, caps = read_pkt_refs_v1(proto.read_pkt_seq())
    if refs != {b"refs/heads/a": sha, b"refs/heads/b": sha} or caps != set():
        problems.append(
            f"read_pkt_refs_v1 on an advertisement with an empty capability list: "
            f"capabilities {caps!r}, expected set()"
        )


def make_commit(repo: Repo) -> bytes:
    blob = Blob.from_string(b"hello\n")
    tree = Tree()
    tree.add(b"f", 0o100644, blob.id)
    c = Commit()
    c.tree = tree.id
    c.author = c.committer = b"A <a@example.com>"
    c.author_time = c.commit_time = 0
    c.author_timezone = c.commit_timezone = 0
    c.message = b"m\n"
    for o in (blob, tree, c):
        repo.object_store.add_object(o)
    return c.id


def check_push(tmp: str) -> None:
    path = os.path.join(tmp, "target.git")
    repo = Repo.init_bare(path, mkdir=True)
    try:
        sha = make_commit(repo)
    finally:
        repo.close()

    # The command list exactly as dulwich's client encodes it when the
    # negotiated capability set is empty.
    header = list(
        _v1ReceivePackHeader([], {}, {b"refs/heads/new": sha})
    )
    assert header[0] == ZERO_SHA + b" " + sha + b" refs/heads/new\x00", header
    empty_pack_hdr = b"PACK" + struct.pack(">LL", 2, 0)
    request = (
        b"".join(pkt_line(p) for p in header)
        + empty_pack_hdr
        + hashlib.sha1(empty_pack_hdr).digest()
    )

    out = BytesIO()
    proto = ReceivableProtocol(BytesIO(request).read, out.write)
    handler = ReceivePackHandler(FileSystemBackend(), [path], proto, stateless_rpc=True)
    error = None
    try:
        handler.handle()
    except Exception as exc:  # noqa: BLE001 - we report whatever it is
        error = exc
    finally:
        handler.repo.close()
        proto.close()
    r = Repo(path)
    try:
        got = r.refs.as_dict().get(b"refs/heads/new")
    finally:
        r.close()
    if error is not None or got != sha:
        problems.append(
            "dulwich receive-pack, fed the command list dulwich's client writes for an empty "
            f"capability list ({header[0]!r}): {type(error).__name__}: {error}; "
            f"refs/heads/new = {got!r}, expected {sha!r}"
        )

    # Reference: C git's receive-pack on the very same bytes (informational).
    git = shutil.which("git")
    if git:
        ref_path = os.path.join(tmp, "cgit.git")
        shutil.copytree(path, ref_path)
        env = dict(os.environ, GIT_CONFIG_NOSYSTEM="1", HOME=tmp)
        subprocess.run([git, "-C", ref_path, "update-ref", "-d", "refs/heads/new"], env=env, check=False)
        p = subprocess.run(
            [git, "receive-pack", "--stateless-rpc", ref_path],
            input=request, capture_output=True, env=env,
        )
        q = subprocess.run(
            [git, "-C", ref_path, "rev-parse", "--verify", "-q", "refs/heads/new"],
            capture_output=True, env=env,
        )
        print(
            f"[reference] C git receive-pack on the same request: exit {p.returncode}, "
            f"refs/heads/new = {q.stdout.strip().decode() or None}"
        )


def main() -> int:
    tmp = tempfile.mkdtemp(prefix="c19h2-")
    try:
        check_unit()
        check_advertisement()
        check_push(tmp)
    finally:
        shutil.rmtree(tmp, ignore_errors=True)
    if problems:
        print("VIOLATION: an empty capability list does not survive the round trip")
        for p in problems:
            print("  - " + p)
        return 1
    print("ok: empty and non-empty capability lists round-trip")
    return 0


if __name__ == "__main__":
    sys.exit(main())
