#!/usr/bin/env python
"""C10 / h3: gc run in one worktree prunes the commits that only the HEAD of
ANOTHER worktree of the same repository reaches.

dulwich supports linked worktrees (dulwich.worktree, porcelain.worktree_add);
all worktrees share one object store.  find_reachable_objects() takes its roots
from ``refs_container.allkeys()``, and the refs container of a Repo only lists
the HEAD and the per-worktree refs (refs/bisect/*, refs/worktree/*,
refs/rewritten/*) of the worktree it was opened in.  The HEADs of the other
worktrees are therefore no roots, and what only they reach is treated as
garbage.  (The same holds for the other worktrees' refs/bisect/* etc.; this
demo sticks to HEAD, which C git's gc demonstrably protects.)

Scenario (no concurrency, no failure injection):
  * main repository with one commit on its branch;
  * porcelain.worktree_add(..., detach=True) creates a linked worktree;
  * in the linked worktree a commit C1 is made on the detached HEAD;
  * three weeks pass (all object files get an old mtime);
  * porcelain.gc(main)  -- default grace period -- is run in the MAIN worktree.
  Variant 2 is the mirror image: the main worktree sits on a detached HEAD and
  gc is run from the linked worktree.

Expected (property C10, and what C git does): every object reachable from any
ref or HEAD survives.  C git's gc is run on an identically built repository as
reference.

Exit status 1 = violation reproduced, 0 = nothing reachable was lost.
"""

import os
import shutil
import subprocess
import sys
import tempfile
import time
import warnings

import dulwich

assert os.path.dirname(dulwich.__file__) == os.path.join(os.environ.get("VERIF_REPO", "/repo"), "dulwich"), dulwich.__file__

from dulwich import porcelain
from dulwich.repo import Repo

warnings.simplefilter("ignore")

IDENT = b"A U Thor <author@example.com>"
THREE_WEEKS = 21 * 86400


def git(cwd, *args):
    env = dict(os.environ, GIT_CONFIG_NOSYSTEM="1", HOME=cwd)
    return subprocess.run(["git", "-C", cwd, *args], capture_output=True, text=True, env=env)


def commit_file(repo, name, content, message):
    path = os.path.join(repo.path, name)
    with open(path, "wb") as f:
        f.write(content)
    porcelain.add(repo, [path])
    return porcelain.commit(repo, message=message, author=IDENT, committer=IDENT)


def closure(store, root):
    todo, seen = [root], []
    while todo:
        sha = todo.pop()
        if sha in seen:
            continue
        seen.append(sha)
        try:
            obj = store[sha]
        except KeyError:
            continue
        if obj.type_name == b"commit":
            todo.append(obj.tree)
            todo.extend(obj.parents)
        elif obj.type_name == b"tree":
            todo.extend(e.sha for e in obj.items())
    return seen


def age_objects(gitdir):
    old = time.time() - THREE_WEEKS
    for root, _dirs, files in os.walk(os.path.join(gitdir, "objects")):
        for f in files:
            os.utime(os.path.join(root, f), (old, old))


def build(top, detach_main):
    """Returns (main_path, wt_path, {description: (worktree path, ref, sha)})."""
    main = os.path.join(top, "main")
    wt = os.path.join(top, "linked")
    os.mkdir(main)
    r = Repo.init(main)
    c0 = commit_file(r, "a.txt", b"a\n", b"c0 on the branch")
    porcelain.worktree_add(r, wt, detach=True)
    roots = {}
    w = Repo(wt)
    c1 = commit_file(w, "b.txt", b"b\n", b"c1 on the detached HEAD of the linked worktree")
    assert w.refs.read_ref(b"HEAD") == c1  # detached
    roots["HEAD of the linked worktree"] = (wt, b"HEAD", c1)
    w.close()
    if detach_main:
        cm = commit_file(r, "m.txt", b"m\n", b"cm")
        # detach the main worktree's HEAD at cm and rewind the branch to c0
        branch = r.refs.read_ref(b"HEAD")[len(b"ref: "):]
        with open(os.path.join(main, ".git", "HEAD"), "wb") as f:
            f.write(cm + b"\n")
        r.refs[branch] = c0
        assert r.refs.read_ref(b"HEAD") == cm and r.refs[branch] == c0
        roots["detached HEAD of the main worktree"] = (main, b"HEAD", cm)
    r.close()
    age_objects(os.path.join(main, ".git"))
    return main, wt, roots


def lost_objects(roots):
    lost = {}
    for what, (path, ref, sha) in roots.items():
        r = Repo(path)
        try:
            assert r.refs[ref] == sha, (what, r.refs[ref], sha)
            missing = [s for s in closure(r.object_store, sha) if s not in r.object_store]
        finally:
            r.close()
        if missing:
            lost[what] = missing
    return lost


def variant(name, detach_main, gc_in_linked):
    bad = False
    # reference: C git on an identically built repository
    top = tempfile.mkdtemp(prefix="c10-h3-ref-")
    try:
        main, wt, roots = build(top, detach_main)
        # drop all reflogs first so that only refs/HEADs hold the commits
        git(main, "reflog", "expire", "--expire=now", "--all")
        git(wt if gc_in_linked else main, "gc", "-q", "--prune=now")
        ref_lost = lost_objects(roots)
        print(f"[{name}] reference, git reflog expire --all + git gc --prune=now: "
              + ("nothing reachable lost" if not ref_lost else f"LOST {ref_lost}"))
    finally:
        shutil.rmtree(top, ignore_errors=True)

    top = tempfile.mkdtemp(prefix="c10-h3-")
    try:
        main, wt, roots = build(top, detach_main)
        before = lost_objects(roots)
        assert not before, before
        stats = porcelain.gc(wt if gc_in_linked else main)  # default grace period
        lost = lost_objects(roots)
        for what, missing in lost.items():
            bad = True
            print(f"VIOLATION [{name}]: after porcelain.gc() the {what} "
                  f"({roots[what][2].decode()}) reaches {len(missing)} object(s) that are gone: "
                  f"{[m.decode() for m in missing]}")
        if not lost:
            print(f"ok [{name}]: nothing reachable lost (pruned {len(stats.pruned_objects)})")
        else:
            fsck = git(wt, "fsck", "--connectivity-only")
            print("    git fsck in the linked worktree now says: "
                  + " | ".join((fsck.stdout + fsck.stderr).strip().splitlines()[:4]))
    finally:
        shutil.rmtree(top, ignore_errors=True)
    return bad


def main():
    bad = False
    bad |= variant("gc in the main worktree", detach_main=False, gc_in_linked=False)
    bad |= variant("gc in the linked worktree", detach_main=True, gc_in_linked=True)
    return 1 if bad else 0


if __name__ == "__main__":
    sys.exit(main())
