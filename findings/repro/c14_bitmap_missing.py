import os, tempfile, sys
sys.path.insert(0,'/repo')
from dulwich.repo import Repo
from dulwich.objects import Blob, Tree, Commit
def mkcommit(store, parents, t, msg=b"m"):
    tr = Tree(); b = Blob.from_string(msg); store.add_object(b); tr.add(b"f", 0o100644, b.id); store.add_object(tr)
    c = Commit(); c.tree = tr.id; c.parents = parents
    c.author = c.committer = b"a <a@b>"; c.author_time = c.commit_time = t
    c.author_timezone = c.commit_timezone = 0; c.message = msg
    store.add_object(c); return c
d = tempfile.mkdtemp(dir=os.environ.get('TMPDIR','/tmp'))
r = Repo.init(d)
c1 = mkcommit(r.object_store, [], 1, b"one")
r.refs[b"refs/heads/master"] = c1.id
r.object_store.pack_loose_objects()
r.object_store.generate_pack_bitmaps({b"refs/heads/master": c1.id})
c2 = mkcommit(r.object_store, [c1.id], 2, b"two")
r.refs[b"refs/heads/master"] = c2.id
r.object_store.pack_loose_objects()   # second pack without bitmap
r.close(); r = Repo(d)
print("packs:", len(r.object_store.packs), [os.path.exists(p._bitmap_path) for p in r.object_store.packs])
from dulwich.object_store import MissingObjectFinder
try:
    m = MissingObjectFinder(r.object_store, haves=[c1.id], wants=[c2.id])
    ids = sorted(x[0] for x in m)
    print("with bitmap:", len(ids))
except Exception as e:
    print("with bitmap: EXC", type(e).__name__, e)
for p in r.object_store.packs:
    if os.path.exists(p._bitmap_path): os.remove(p._bitmap_path)
r.close(); r = Repo(d)
m = MissingObjectFinder(r.object_store, haves=[c1.id], wants=[c2.id])
print("without bitmap:", len(sorted(x[0] for x in m)))
r.close()
