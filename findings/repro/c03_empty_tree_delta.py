"""C03 / h1 -- a valid delta whose target is the empty tree is refused by DeltaChainIterator.

base   = a (large) tree object
target = b""  -- the empty tree 4b825dc642cb6eb9a060e54bf8d69288fbee4904, a legitimate git object
delta  = create_delta(base, target)   (the library's own encoder)

The codec itself round-trips (apply_delta(base, delta) == b""), C git's index-pack --strict accepts
the three-object pack that carries the delta, and dulwich's own random-access path
(Pack.get_raw -> Pack.resolve_object) returns the empty tree.  But every DeltaChainIterator
(PackIndexer / PackInflater / UnpackedObjectIterator: what indexes a received pack, Pack.check,
add_thin_pack, ...) raises ApplyDeltaError("delta resolved to empty payload for type 2").

Run:  cd /repo && PYTHONPATH=/repo /venv/bin/python /repo-out/h1/demo.py
exit 1 = violation observed, exit 0 = behaves as the property says.
"""

import binascii
import hashlib
import os
import shutil
import struct
import subprocess
import sys
import tempfile
import zlib

import dulwich

pass  # run against the installed dulwich (/repo)

from dulwich.errors import ApplyDeltaError
from dulwich.object_format import DEFAULT_OBJECT_FORMAT
from dulwich.objects import Blob, Tree
from dulwich.pack import (
    REF_DELTA,
    Pack,
    PackData,
    PackInflater,
    apply_delta,
    create_delta,
    write_pack_index_v2,
)


def obj_header(type_num: int, size: int) -> bytes:
    out = bytearray()
    c = (type_num << 4) | (size & 0x0F)
    size >>= 4
    while size:
        out.append(c | 0x80)
        c = size & 0x7F
        size >>= 7
    out.append(c)
    return bytes(out)


def main() -> int:
    blob = Blob.from_string(b"hello")
    tree = Tree()
    for i in range(600):
        tree.add(b"file%04d" % i, 0o100644, blob.id)
    base = tree.as_raw_string()  # 21600 bytes -> the delta is 4 bytes, C git's minimum
    empty = Tree()
    assert empty.as_raw_string() == b""
    assert empty.id == b"4b825dc642cb6eb9a060e54bf8d69288fbee4904"

    delta = b"".join(create_delta(base, b""))
    # the codec proper is fine
    assert b"".join(apply_delta(base, delta)) == b"", "codec itself is broken?"
    print(f"base tree {len(base)} bytes, delta for the empty tree = {delta.hex()}")

    # pack: blob, ref-delta (-> empty tree) on the big tree, big tree
    entries = []  # (raw sha, offset, crc32)
    body = bytearray(b"PACK" + struct.pack(">LL", 2, 3))

    def add(sha_raw: bytes, rec: bytes) -> None:
        entries.append((sha_raw, len(body), binascii.crc32(rec) & 0xFFFFFFFF))
        body.extend(rec)

    add(blob.sha().digest(), obj_header(3, 5) + zlib.compress(b"hello"))
    add(
        empty.sha().digest(),
        obj_header(REF_DELTA, len(delta)) + tree.sha().digest() + zlib.compress(delta),
    )
    add(tree.sha().digest(), obj_header(2, len(base)) + zlib.compress(base))
    pack_sha = hashlib.sha1(body).digest()
    body += pack_sha

    tmp = tempfile.mkdtemp(prefix="c03h1-")
    failures = []
    try:
        basename = os.path.join(tmp, "pack-demo")
        with open(basename + ".pack", "wb") as f:
            f.write(body)

        # Reference: C git
        if shutil.which("git"):
            gitdir = os.path.join(tmp, "g")
            subprocess.run(["git", "init", "-q", gitdir], check=True)
            gp = os.path.join(gitdir, "p.pack")
            shutil.copy(basename + ".pack", gp)
            r = subprocess.run(
                ["git", "index-pack", "--strict", gp], cwd=gitdir, capture_output=True
            )
            print(
                "C git index-pack --strict:",
                "accepts the pack" if r.returncode == 0 else r.stderr.decode().strip(),
            )
            if r.returncode != 0:
                print("reference implementation refuses the pack; demo premise void")
                return 2
        else:
            print("(git not found, skipping the reference check)")

        # Sibling path 1: random access through an index (index written by hand here)
        with open(basename + ".idx", "wb") as f:
            write_pack_index_v2(f, sorted(entries), pack_sha)
        p = Pack(basename, object_format=DEFAULT_OBJECT_FORMAT)
        try:
            got = p.get_raw(empty.id)
            print("Pack.get_raw(empty tree)         ->", got)
            assert got == (2, b"")
            # Sibling path 2: the delta chain iterators
            for label, fn in (
                ("Pack.check()", lambda: p.check()),
                ("PackData.iterentries()", lambda: list(p.data.iterentries())),
                (
                    "PackInflater.for_pack_data()",
                    lambda: [o.id for o in PackInflater.for_pack_data(p.data)],
                ),
            ):
                try:
                    fn()
                    print(f"{label:32s} -> ok")
                except ApplyDeltaError as e:
                    print(f"{label:32s} -> ApplyDeltaError: {e}")
                    failures.append(label)
        finally:
            p.close()

        # and the plain "index a pack that just arrived" entry point
        pd = PackData(basename + ".pack", object_format=DEFAULT_OBJECT_FORMAT)
        try:
            try:
                pd.create_index_v2(os.path.join(tmp, "new.idx"))
                print("PackData.create_index_v2()       -> ok")
            except ApplyDeltaError as e:
                print(f"PackData.create_index_v2()       -> ApplyDeltaError: {e}")
                failures.append("create_index_v2")
        finally:
            pd.close()
    finally:
        shutil.rmtree(tmp, ignore_errors=True)

    if failures:
        print(
            "\nVIOLATION: apply(create(base, b''), base) == b'' for the codec, C git and "
            "Pack.get_raw,\nbut the delta is refused as malformed by: " + ", ".join(failures)
        )
        return 1
    print("\nOK: the delta to the empty tree resolves everywhere")
    return 0


if __name__ == "__main__":
    sys.exit(main())
