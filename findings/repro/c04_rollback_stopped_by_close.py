"""C04: a pack rejected AFTER it was installed stays installed, its objects visible.

add_pack().commit() of a pack truncated by 1..15 bytes: extend_pack rewrites the trailer, the pack and index are renamed
into place, the validation that follows raises zlib.error - and the rollback's first statement, final_pack.close(),
raised BufferError ("cannot close exported pointers exist": frames of the exception in flight still hold views of the
mapped pack), so the os.remove calls behind it never ran.  commit() raised but pack-<id>.pack/.idx stayed and the
object was listed and readable.  Exit 1 when any truncation leaves something behind."""
import os, sys, tempfile, shutil, io
from dulwich.repo import Repo
from dulwich.objects import Blob
from dulwich.pack import write_pack_objects
d = tempfile.mkdtemp()
r = Repo.init_bare(d)
b = Blob.from_string(b"hello\n")
f = io.BytesIO(); write_pack_objects(f.write, [(b, None)], object_format=r.object_format)
good = f.getvalue()
def ls():
    return sorted(os.listdir(os.path.join(d, "objects", "pack")))
bad = 0
for cut in range(1, len(good)):
    data = good[:-cut]
    pf, commit, abort = r.object_store.add_pack()
    pf.write(data)
    try:
        commit()
        print(f"cut {cut}: accepted?"); 
    except BaseException as e:
        left = ls()
        if left or b.id in r.object_store:
            print(f"cut {cut}: {type(e).__name__}: {e}; left behind: {left}; object visible: {b.id in r.object_store}")
            bad += 1
            for x in left: os.remove(os.path.join(d, "objects", "pack", x))
            r.object_store._clear_cached_packs() if hasattr(r.object_store, "_clear_cached_packs") else None
print("truncations that left something behind:", bad, "of", len(good) - 1)
r.close(); shutil.rmtree(d); sys.exit(1 if bad else 0)
