import os, tempfile, shutil, io, sys
from dulwich.repo import Repo
from dulwich.objects import Blob
from dulwich.pack import write_pack_objects, PackData
d=tempfile.mkdtemp()
try:
    r=Repo.init_bare(d)
    # build a valid pack in memory
    blobs=[Blob.from_string(b"hello %d\n"%i*100) for i in range(5)]
    f=io.BytesIO()
    write_pack_objects(f.write,[(b,None) for b in blobs], object_format=r.object_format) if 'object_format' in write_pack_objects.__code__.co_varnames else write_pack_objects(f.write,[(b,None) for b in blobs])
    data=f.getvalue()
    def ls():
        out=[]
        for root,dirs,files in os.walk(os.path.join(d,'objects')):
            for x in files: out.append(os.path.relpath(os.path.join(root,x),d))
        return sorted(out)
    print('before',ls())
    # 1. corrupt a byte in the middle (zlib stream), thin pack path
    bad=bytearray(data); bad[len(bad)//2]^=0xff
    bio=io.BytesIO(bytes(bad))
    try:
        r.object_store.add_thin_pack(bio.read, None)
        print('thin: accepted?!')
    except Exception as e:
        print('thin: rejected', type(e).__name__)
    print('after thin',ls())
    # 2. add_pack commit with corrupt trailer
    bad=bytearray(data); bad[-1]^=0xff
    f2,commit,abort=r.object_store.add_pack()
    f2.write(bytes(bad))
    try:
        commit(); print('add_pack wrong trailer: accepted')
    except Exception as e:
        print('add_pack: rejected', type(e).__name__, e)
    print('after add_pack',ls())
    # 3. add_pack commit with corrupt body
    bad=bytearray(data); bad[len(bad)//2]^=0xff
    f2,commit,abort=r.object_store.add_pack()
    f2.write(bytes(bad))
    try:
        commit(); print('add_pack corrupt body: accepted')
    except Exception as e:
        print('add_pack: rejected', type(e).__name__)
    print('after add_pack2',ls())
finally:
    shutil.rmtree(d)
