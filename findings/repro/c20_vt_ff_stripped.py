#!/usr/bin/env python
"""C20 / h1: dulwich strips VT (0x0b) and FF (0x0c) from the ends of a value
in a file that git wrote; git itself keeps them.

git's notion of white space in the config parser is SP, TAB, LF, CR only
(sane_ctype), so `git config` writes a value such as b"\x0cfoo" or b"foo\x0b"
UNQUOTED and reads it back unchanged.  dulwich's reader calls bytes.strip()
with no argument, which also removes VT and FF, and so returns a different
value from the very same file.

Exit status: 1 when the violation is observed, 0 when dulwich and git agree.
"""

import os
import shutil
import subprocess
import sys
import tempfile

import dulwich

pass  # run against the installed dulwich (/repo)
from dulwich.config import ConfigFile

VALUES = [
    b"\x0cfoo",  # leading form feed
    b"foo\x0b",  # trailing vertical tab
    b"\x0b",  # nothing but a vertical tab
    b"a b \x0c",  # blank followed by a trailing form feed
    b"\x0b\\",  # VT followed by a backslash
    b"x\x0by",  # control: interior VT (both agree)
    b"plain",  # control
]


def main() -> int:
    td = tempfile.mkdtemp(prefix="c20h1-")
    env = dict(os.environ, HOME=td, GIT_CONFIG_NOSYSTEM="1")
    failures = []
    try:
        for i, stored in enumerate(VALUES):
            path = os.path.join(td, "cfg%d" % i)
            # 1. git writes the file
            subprocess.run(
                [b"git", b"config", b"--file", path.encode(), b"sec.key", stored],
                check=True,
                env=env,
            )
            # a second value to make sure nothing else on the line is disturbed
            subprocess.run(
                [b"git", b"config", b"--file", path.encode(), b"--add", b"sec.key", b"second"],
                check=True,
                env=env,
            )
            # 2. git reads it back (reference)
            out = subprocess.run(
                [b"git", b"config", b"--file", path.encode(), b"-z", b"--get-all", b"sec.key"],
                check=True,
                env=env,
                capture_output=True,
            ).stdout
            git_values = out.split(b"\0")[:-1]
            assert git_values == [stored, b"second"], (
                "reference problem: git does not round-trip %r: %r" % (stored, git_values)
            )
            # 3. dulwich reads the file git wrote
            with open(path, "rb") as f:
                raw = f.read()
            cf = ConfigFile.from_path(path)
            dulwich_values = list(cf.get_multivar((b"sec",), b"key"))
            if dulwich_values != git_values:
                failures.append((stored, raw, git_values, dulwich_values))
    finally:
        shutil.rmtree(td, ignore_errors=True)

    if failures:
        print("VIOLATION: dulwich reads other values than git from a file git wrote")
        for stored, raw, g, d in failures:
            print("  stored by `git config`: %r" % stored)
            print("    file bytes          : %r" % raw)
            print("    git reads           : %r" % g)
            print("    dulwich reads       : %r" % d)
        return 1
    print("ok: dulwich and git read the same values from the files git wrote")
    return 0


if __name__ == "__main__":
    sys.exit(main())
