#!/usr/bin/env python
"""C05 / h3 -- dulwich client, protocol v2 (the default for fetch), C git server:
an ordinary (non-deepening) fetch into a SHALLOW clone "succeeds" without receiving a
single object; the caller then moves its refs to commits that are not in the repository.

    upstream (served by `git daemon`, i.e. C git upload-pack, protocol v2):
        C1 <- C2 <- C3                     refs/heads/main
    client:  porcelain.clone(..., depth=1)  => has C3, .git/shallow = {C3}
    upstream gets C4 <- C5 on main
    client:  porcelain.fetch(repo, "origin")          (no depth)

Because the client is shallow it sends `shallow C3`; C git answers with a `shallow-info`
section (empty), a delim-pkt and then the `packfile` section.  _handle_upload_pack_tail()
assumes the first packet of the response is `packfile`, and the side-band reader stops at
the delim-pkt (read_pkt_line() returns None for 0001 as for 0000): zero bytes of pack are
consumed, no error is raised, refs/remotes/origin/main is set to C5, which does not exist
locally.  With protocol_version=0 the very same fetch is complete.

Exit status: 1 if the receiver is incomplete after the successful fetch, 0 otherwise.
"""
import os
import shutil
import socket
import subprocess
import sys
import tempfile
import time

import dulwich

assert os.path.dirname(dulwich.__file__) == os.path.join(os.environ.get("VERIF_REPO", "/repo"), "dulwich"), dulwich.__file__

from dulwich import porcelain
from dulwich.objects import Blob, Commit, Tag, Tree
from dulwich.repo import Repo

MAIN = b"refs/heads/main"


def make_commit(repo, parents, files, msg, when):
    tree = Tree()
    for name, data in files.items():
        b = Blob.from_string(data)
        repo.object_store.add_object(b)
        tree.add(name, 0o100644, b.id)
    repo.object_store.add_object(tree)
    c = Commit()
    c.tree = tree.id
    c.parents = parents
    c.author = c.committer = b"A U Thor <a@example.com>"
    c.author_time = c.commit_time = when
    c.author_timezone = c.commit_timezone = 0
    c.message = msg
    repo.object_store.add_object(c)
    return c.id


def missing_objects(repo):
    """Objects reachable from the refs (cut at .git/shallow) that are absent."""
    shallow = repo.get_shallow()
    store = repo.object_store
    missing, seen, todo = set(), set(), list(set(repo.get_refs().values()))
    while todo:
        sha = todo.pop()
        if sha in seen:
            continue
        seen.add(sha)
        try:
            o = store[sha]
        except KeyError:
            missing.add(sha)
            continue
        if isinstance(o, Commit):
            todo.append(o.tree)
            if sha not in shallow:
                todo.extend(o.parents)
        elif isinstance(o, Tree):
            todo.extend(s for _n, m, s in o.iteritems() if m != 0o160000)
        elif isinstance(o, Tag):
            todo.append(o.object[1])
    return missing


def start_daemon(root):
    sk = socket.socket()
    sk.bind(("127.0.0.1", 0))
    port = sk.getsockname()[1]
    sk.close()
    proc = subprocess.Popen(
        ["git", "daemon", "--reuseaddr", "--export-all", "--base-path=" + root,
         "--listen=127.0.0.1", "--port=%d" % port, root],
        stdout=subprocess.DEVNULL, stderr=subprocess.DEVNULL)
    for _ in range(200):
        try:
            socket.create_connection(("127.0.0.1", port), timeout=0.2).close()
            return proc, port
        except OSError:
            time.sleep(0.05)
    proc.terminate()
    raise RuntimeError("git daemon did not start")


def run(root, port, label, protocol_version):
    """Returns the set of missing objects after clone --depth=1 + plain fetch."""
    up = Repo.init_bare(os.path.join(root, label + "-up"), mkdir=True)
    files = {b"a": b"1\n"}
    c1 = make_commit(up, [], files, b"C1\n", 1000)
    files[b"b"] = b"2\n"
    c2 = make_commit(up, [c1], files, b"C2\n", 2000)
    files[b"c"] = b"3\n"
    c3 = make_commit(up, [c2], files, b"C3\n", 3000)
    up.refs[MAIN] = c3
    up.refs.set_symbolic_ref(b"HEAD", MAIN)
    url = "git://127.0.0.1:%d/%s-up" % (port, label)

    target = os.path.join(root, label + "-clone")
    devnull = open(os.devnull, "wb")
    kw = {} if protocol_version is None else {"protocol_version": protocol_version}
    porcelain.clone(url, target, bare=True, depth=1, errstream=devnull, **kw).close()
    with Repo(target) as r:
        assert r.get_shallow() == {c3}, r.get_shallow()
        assert not missing_objects(r), "clone must be complete modulo shallow"

    files[b"d"] = b"4\n"
    c4 = make_commit(up, [c3], files, b"C4\n", 4000)
    files[b"e"] = b"5\n"
    c5 = make_commit(up, [c4], files, b"C5\n", 5000)
    up.refs[MAIN] = c5
    up.close()

    if protocol_version is None:
        porcelain.fetch(target, "origin", errstream=devnull)      # plain fetch, default protocol
    else:
        # porcelain.fetch has no protocol_version argument; do what it does by hand
        from dulwich.client import get_transport_and_path
        with Repo(target) as r:
            client, path = get_transport_and_path(url)
            res = client.fetch(path.encode(), r, protocol_version=protocol_version)
            r.refs[b"refs/remotes/origin/main"] = res.refs[MAIN]
    devnull.close()

    names = {c1: "C1", c2: "C2", c3: "C3", c4: "C4", c5: "C5"}
    with Repo(target) as r:
        tip = r.refs[b"refs/remotes/origin/main"]
        missing = missing_objects(r)
        print(f"[{label}] fetch returned normally; refs/remotes/origin/main = {names.get(tip, tip)}; "
              f"shallow = {sorted(names.get(s, s) for s in r.get_shallow())}; "
              f"missing: {sorted(names.get(s, s.decode()[:10]) for s in missing) or 'none'}")
    p = subprocess.run(["git", "-C", target, "fsck", "--connectivity-only"], capture_output=True, text=True)
    print(f"[{label}]   git fsck --connectivity-only rc={p.returncode} "
          + " | ".join((p.stdout + p.stderr).strip().splitlines()[:2]))
    return missing


def main():
    if not shutil.which("git"):
        print("C git is required for this demonstration (it is the server)")
        return 2
    root = tempfile.mkdtemp(prefix="c05-h3-")
    proc = None
    try:
        proc, port = start_daemon(root)
        ref_missing = run(root, port, "protocol-v0", 0)
        missing = run(root, port, "default-v2", None)
    finally:
        if proc is not None:
            proc.terminate()
            proc.wait()
        shutil.rmtree(root, ignore_errors=True)
    if ref_missing:
        print("note: even the protocol v0 run was incomplete")
    if missing:
        print("VIOLATION: a successful fetch (dulwich client, protocol v2, C git server) into a "
              "shallow clone transferred no objects; the updated ref points at a missing commit.")
        return 1
    print("OK: receiver complete after the fetch")
    return 0


if __name__ == "__main__":
    sys.exit(main())
