#!/usr/bin/env python
"""C10 / h1: a reader that walks the object store and looks the objects up
(``for sha in store: store[sha]``) is killed by a concurrent repack with
``ValueError: mmap closed or invalid``.

Every object exists throughout (the repacker only moves objects into a new
pack), so the reader should simply see all of them.

Reader  : a long-lived Repo; the loop used by porcelain.fsck() and by
          DiskObjectStore.write_commit_graph(refs=None):
              for sha in store:
                  obj = store[sha]
Repacker: a second actor (variant 1: another DiskObjectStore instance calling
          repack(), as a second dulwich process would; variant 2: C git
          ``git repack -a -d``).  It runs exactly once, while the reader is in
          the middle of the FIRST pack.

Exit status 1 = violation reproduced, 0 = the reader survived and saw all objects.
"""

import os
import shutil
import subprocess
import sys
import tempfile
import traceback
import warnings

import dulwich

assert dulwich.__file__.startswith("/repo/"), dulwich.__file__

from dulwich.object_store import DiskObjectStore
from dulwich.objects import Blob, Commit, Tree
from dulwich.repo import Repo

warnings.simplefilter("ignore")

N_LOOSE = 3
N_PER_PACK = 6


def build(d):
    """3 loose blobs + two packs; everything is reachable from refs/heads/master
    (so that ``git repack -a -d`` keeps all of it)."""
    r = Repo.init(d)
    st = r.object_store
    tree = Tree()
    loose = [Blob.from_string(b"loose %d\n" % i) for i in range(N_LOOSE)]
    packs = [
        [Blob.from_string(b"pack %d blob %d\n" % (p, i)) for i in range(N_PER_PACK)]
        for p in range(2)
    ]
    for i, b in enumerate(loose + packs[0] + packs[1]):
        tree.add(b"f%02d" % i, 0o100644, b.id)
    c = Commit()
    c.tree = tree.id
    c.author = c.committer = b"A U Thor <author@example.com>"
    c.author_time = c.commit_time = 1700000000
    c.author_timezone = c.commit_timezone = 0
    c.message = b"all of it"
    packs[1] += [tree, c]
    for b in loose:
        st.add_object(b)
    for objs in packs:
        st.add_objects([(o, None) for o in objs])
    r.refs[b"refs/heads/master"] = c.id
    ids = {o.id for o in loose + packs[0] + packs[1]}
    r.close()
    return ids


def dulwich_repack(d):
    other = DiskObjectStore(os.path.join(d, ".git", "objects"))
    try:
        other.repack()
    finally:
        other.close()


def git_repack(d):
    env = dict(os.environ, GIT_CONFIG_NOSYSTEM="1", HOME=d)
    subprocess.run(["git", "-C", d, "repack", "-a", "-d", "-q"], check=True, env=env)


def run_variant(name, repacker):
    d = tempfile.mkdtemp(prefix="c10-h1-")
    try:
        expected = build(d)
        reader = Repo(d)
        store = reader.object_store
        seen = {}
        n = 0
        try:
            for sha in store:
                n += 1
                # The loose objects come first; trigger the repack once the
                # reader is two objects into the first pack.
                if n == N_LOOSE + 2:
                    repacker(d)
                obj = store[sha]
                seen[sha] = obj.as_raw_string()
        except Exception as e:  # noqa: BLE001
            tb = traceback.format_exc().strip().splitlines()
            print(f"VIOLATION [{name}]: the reader died with {type(e).__name__}: {e}")
            print("    " + "\n    ".join(tb[-8:]))
            print(f"    objects delivered before the crash: {len(seen)} of {len(expected)}")
            return True
        finally:
            reader.close()
        lost = expected - set(seen)
        if lost:
            print(f"VIOLATION [{name}]: iteration skipped {len(lost)} objects that exist throughout")
            return True
        print(f"ok [{name}]: reader saw all {len(expected)} objects")
        return False
    finally:
        shutil.rmtree(d, ignore_errors=True)


def main():
    bad = False
    bad |= run_variant("dulwich repack() in a second store instance", dulwich_repack)
    bad |= run_variant("git repack -a -d", git_repack)
    return 1 if bad else 0


if __name__ == "__main__":
    sys.exit(main())
