import os, tempfile, sys
sys.path.insert(0,'/repo')
from dulwich.repo import Repo
from dulwich.objects import Blob, Tree, Commit, ZERO_SHA
from dulwich.client import LocalGitClient
def mkcommit(store, parents, t, msg=b"m"):
    tr = Tree(); store.add_object(tr)
    c = Commit(); c.tree = tr.id; c.parents = parents
    c.author = c.committer = b"a <a@b>"; c.author_time = c.commit_time = t
    c.author_timezone = c.commit_timezone = 0; c.message = msg
    store.add_object(c); return c
base = os.environ.get('TMPDIR','/tmp')
src = Repo.init(tempfile.mkdtemp(dir=base)); dst = Repo.init_bare(tempfile.mkdtemp(dir=base))
c1 = mkcommit(src.object_store, [], 1, b"1"); c2 = mkcommit(src.object_store, [c1.id], 2, b"2"); c3 = mkcommit(src.object_store, [c1.id], 3, b"3")
for o in src.object_store: dst.object_store.add_object(src.object_store[o])
dst.refs[b"refs/heads/a"] = c1.id; dst.refs[b"refs/heads/b"] = c1.id
# pusher's view of remote is stale for 'a' (it thinks a == c1), meanwhile a moved to c3
stale_view = {b"refs/heads/a": c1.id, b"refs/heads/b": c1.id}
dst.refs[b"refs/heads/a"] = c3.id
client = LocalGitClient()
import dulwich.client as dc
orig = Repo.get_refs
# make the client see the stale view when it reads remote refs (models the time gap between read and apply)
calls = {"n":0}
def stale_get_refs(self):
    calls["n"] += 1
    if self.path == dst.path and calls["n"] == 1:
        return dict(stale_view)
    return orig(self)
Repo.get_refs = stale_get_refs
res = client.send_pack(dst.path, lambda refs: {b"refs/heads/a": c2.id, b"refs/heads/b": c2.id},
                       lambda have, want, **kw: src.object_store.generate_pack_data(have, want), atomic=True)
Repo.get_refs = orig
print("ref_status:", res.ref_status)
d2 = Repo(dst.path)
print("a:", d2.refs[b"refs/heads/a"] == c3.id and "untouched(c3)" , " b:", "moved to c2 (partial application!)" if d2.refs[b"refs/heads/b"] == c2.id else "untouched")
