#!/usr/bin/env python
"""C15 / h3: apply_delta -- a delta whose size header is a zero-padded varint of
more than 10 bytes is APPLIED by the pure-Python implementation (and by C git)
and REJECTED by the Rust implementation ("delta size header too large").

The size headers of a delta are little-endian base-128 varints.  Nothing
forces them to be minimal: 0x8c 0x80 ... 0x80 0x00 still denotes 12.  The Rust
parser gives up as soon as the shift count reaches 64, even when the bits to
be shifted in are all zero; the Python parser (unbounded ints) and git
(patch-delta.c / delta.h:get_delta_hdr_size) just carry on.

Function level: apply_delta(base, delta).  Repository level: a two-object pack
(blob + REF_DELTA against it) is ingested with add_thin_pack and the delta
object is read back.

The probe runs twice in child processes (extensions blocked / enabled).
Exit 0: equal outcomes.  Exit 1: divergence.  Exit 2: cannot compare.
"""

import hashlib
import json
import os
import shutil
import struct
import subprocess
import sys
import tempfile
import zlib

ROOT = os.environ.get("DULWICH_ROOT", "/repo")

BASE = b"hello world\n"
TARGET = BASE + BASE


def make_delta(src_pad, dst_pad):
    """copy(0, len(BASE)) twice; the size headers optionally padded with
    `n` continuation bytes 0x80 and a final 0x00."""
    def size(n, pad):
        assert n < 0x80
        return bytes([n]) if not pad else bytes([n | 0x80]) + b"\x80" * (pad - 1) + b"\x00"
    return size(len(BASE), src_pad) + size(len(TARGET), dst_pad) + bytes([0x90, len(BASE)]) * 2


def obj_hdr(type_num, n):
    c = (type_num << 4) | (n & 0x0F)
    n >>= 4
    out = bytearray()
    while n:
        out.append(c | 0x80)
        c = n & 0x7F
        n >>= 7
    out.append(c)
    return bytes(out)


def make_pack(delta):
    base_sha = hashlib.sha1(b"blob %d\0" % len(BASE) + BASE).digest()
    p = b"PACK" + struct.pack(">LL", 2, 2)
    p += obj_hdr(3, len(BASE)) + zlib.compress(BASE)
    p += obj_hdr(7, len(delta)) + base_sha + zlib.compress(delta)   # REF_DELTA
    return p + hashlib.sha1(p).digest()


CHILD = r"""
import io, json, os, sys
which, root, workdir = sys.argv[1], sys.argv[2], sys.argv[3]
deltas = json.loads(sys.argv[4]); packs = json.loads(sys.argv[5])
base = bytes.fromhex(sys.argv[6]); target_id = sys.argv[7].encode()
if which == "pure":
    for m in ("dulwich._objects", "dulwich._pack", "dulwich._diff_tree"):
        sys.modules[m] = None
import dulwich
assert dulwich.__file__.startswith(root), dulwich.__file__
import dulwich.pack as P
from dulwich.repo import Repo
is_builtin = type(P.apply_delta).__name__ == "builtin_function_or_method"
if (which == "rust") != is_builtin:
    print(json.dumps({"__env__": "wanted %s but apply_delta is %r" % (which, P.apply_delta)}))
    sys.exit(0)

def outcome(fn):
    try:
        return ["ok", fn()]
    except BaseException as e:
        return ["fail"]

res = {}
for label, d in deltas.items():
    res["apply_delta(%s)" % label] = outcome(lambda: b"".join(P.apply_delta(base, bytes.fromhex(d))).decode())

for label, path in packs.items():
    def ingest(label=label, path=path):
        rp = os.path.join(workdir, which + "-" + label.replace(" ", "_"))
        os.mkdir(rp)
        r = Repo.init_bare(rp)
        try:
            with open(path, "rb") as f:
                r.object_store.add_thin_pack(f.read, None)
            return r[target_id].data.decode()
        finally:
            r.close()
    res["add_thin_pack(%s); repo[delta object].data" % label] = outcome(ingest)
print(json.dumps(res))
"""


def run(which, workdir, deltas, packs):
    env = dict(os.environ, PYTHONPATH=ROOT)
    target_id = hashlib.sha1(b"blob %d\0" % len(TARGET) + TARGET).hexdigest()
    p = subprocess.run([sys.executable, "-c", CHILD, which, ROOT, workdir, json.dumps(deltas),
                        json.dumps(packs), BASE.hex(), target_id],
                       cwd=ROOT, env=env, capture_output=True, text=True)
    if p.returncode != 0:
        print("child (%s) crashed: rc=%s\n%s" % (which, p.returncode, p.stderr[-2000:]))
        sys.exit(2)
    return json.loads(p.stdout.strip().splitlines()[-1])


def main():
    cases = {
        # controls
        "ctl minimal headers": (0, 0),
        "ctl source size padded to 10 bytes": (9, 0),      # shift stays below 64: fine for both
        # 11 bytes and more: the 11th byte is shifted by 70
        "source size padded to 11 bytes": (10, 0),
        "target size padded to 11 bytes": (0, 10),
        "both padded to 30 bytes": (29, 29),
    }
    tmp = tempfile.mkdtemp(prefix="c15-h3-")
    try:
        deltas, packs = {}, {}
        for label, (sp, dp) in cases.items():
            d = make_delta(sp, dp)
            deltas[label] = d.hex()
            path = os.path.join(tmp, "%d-%d.pack" % (sp, dp))
            with open(path, "wb") as f:
                f.write(make_pack(d))
            packs[label] = path
        pure = run("pure", tmp, deltas, packs)
        rust = run("rust", tmp, deltas, packs)
    finally:
        shutil.rmtree(tmp, ignore_errors=True)
    for r in (pure, rust):
        if "__env__" in r:
            print("cannot compare:", r["__env__"])
            return 2
    bad = [k for k in pure if pure[k] != rust.get(k)]
    for k in pure:
        print("%-9s %-75s pure=%r rust=%r" % ("DIFFERENT" if k in bad else "same", k, pure[k], rust.get(k)))
    if bad:
        print("\nVIOLATION of C15: %d of %d probes differ: a (base, delta) pair that the pure-Python "
              "apply_delta decodes is refused by the Rust apply_delta, and the pack that carries it can be "
              "ingested only without the extension." % (len(bad), len(pure)))
        return 1
    print("\nall %d probes agree" % len(pure))
    return 0


if __name__ == "__main__":
    sys.exit(main())
