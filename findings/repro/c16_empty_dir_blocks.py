"""C16: a FAILED conditional update leaves an empty directory that makes a later unconditional write fail.

set_if_equals(b"refs/heads/a/b", <wrong old value>, v) creates refs/heads/a/ for its lock file, finds the condition false
and returns False - leaving the empty directory.  refs[b"refs/heads/a"] = v then fails with IsADirectoryError (the rename
of a.lock onto the directory), although no ref named refs/heads/a/... exists: "unconditional writes always take effect",
and the in-memory backend and git (which removes empty directories in the way of a new ref) accept it.
Exit 1 when the write fails."""
import os, sys, tempfile, shutil
from dulwich.repo import Repo
d = tempfile.mkdtemp()
r = Repo.init_bare(d)
A, B = b"1" * 40, b"2" * 40
print("failed CAS on refs/heads/a/b returns", r.refs.set_if_equals(b"refs/heads/a/b", A, B))
print("refs now:", sorted(r.refs.allkeys()))
rc = 0
try:
    r.refs[b"refs/heads/a"] = A
    print("refs/heads/a =", r.refs[b"refs/heads/a"])
except Exception as e:  # noqa: BLE001
    print("unconditional write of refs/heads/a raised:", type(e).__name__); rc = 1
r.close(); shutil.rmtree(d); sys.exit(rc)
