"""C05: a deepening fetch over a stateful v0/v1 transport loses a `shallow` line and leaves a commit whose parent is
missing and which is not recorded as shallow (broken closure).

git-upload-pack sends the shallow-update section as soon as it has read the request (wants, shallow, deepen, flush),
BEFORE the have/ACK negotiation.  _handle_upload_pack_head() sent its haves first and, whenever can_read() said data
was waiting, read a line and treated anything that is not an ACK as nothing: the first `shallow <sha>` line vanished.
The schedule "server answers before the client polls" is made deterministic here by a 0.3 s pause in can_read().
Needs the `git` executable.  Exit 1 when a reachable, non-shallow commit has a missing parent."""
import os, subprocess, sys, tempfile, shutil, time
from dulwich.repo import Repo
from dulwich.client import SubprocessGitClient, get_transport_and_path
from dulwich import porcelain

base = tempfile.mkdtemp()
rc = 2
def git(*a, cwd):
    return subprocess.run(["git", *a], cwd=cwd, check=True, capture_output=True, text=True, env={**os.environ, "GIT_AUTHOR_NAME":"a","GIT_AUTHOR_EMAIL":"a@b","GIT_COMMITTER_NAME":"a","GIT_COMMITTER_EMAIL":"a@b"}).stdout
src = os.path.join(base, "src"); os.mkdir(src)
git("init", "-q", "-b", "master", cwd=src)
for i in range(6):
    open(os.path.join(src, "f"), "w").write(str(i)); git("add", "f", cwd=src); git("commit", "-q", "-m", f"c{i}", cwd=src)
dst = os.path.join(base, "dst")
r = porcelain.clone(src, dst, depth=1)   # local clone? uses LocalGitClient
print("shallow after clone:", r.get_shallow())
r.close()
for i in range(6, 10):
    open(os.path.join(src, "f"), "w").write(str(i)); git("add", "f", cwd=src); git("commit", "-q", "-m", f"c{i}", cwd=src)
r = Repo(dst)
c = SubprocessGitClient()
# make the schedule deterministic: wait for the server's shallow-update before answering can_read
try:
    import dulwich.client as dc
    orig = dc.SubprocessWrapper.can_read
    def slow(self):
        time.sleep(0.3); return orig(self)
    dc.SubprocessWrapper.can_read = slow
    res = c.fetch(src, r, depth=1, protocol_version=int(os.environ.get("PV", "0")))
    print("fetch ok; refs", {k: v for k, v in res.refs.items() if k == b"refs/heads/master"})
    print("shallow after fetch:", r.get_shallow())
    tip = res.refs[b"refs/heads/master"]
    # closure check: every parent of a non-shallow commit present
    missing = []
    todo = [tip]; seen = set()
    while todo:
        s = todo.pop()
        if s in seen: continue
        seen.add(s)
        cm = r.object_store[s]
        if s in r.get_shallow(): continue
        for p in cm.parents:
            if p not in r.object_store: missing.append((s, p))
            else: todo.append(p)
    print("missing parents:", missing)
    rc = 1 if missing else 0
except Exception as e:
    import traceback; traceback.print_exc()
shutil.rmtree(base)
sys.stdout.flush(); os._exit(rc)
