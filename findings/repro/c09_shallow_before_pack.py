#!/usr/bin/env python
"""C09 / h1: deepening a shallow repository from a local path rewrites .git/shallow
BEFORE the pack with the newly needed history is installed.

A process crash anywhere between the two leaves a repository whose branch tip is no
longer listed as a shallow boundary while its parent commit is absent: the closure
of every ref is broken (git fsck: "missing commit", git log: fatal).

The demo makes a depth-1 clone, then runs `porcelain.fetch(..., depth=3)` in a child
process that is killed (os._exit, no cleanup handlers run) immediately before the
k-th rename/replace/unlink it issues inside the target repository, for every k.
After each simulated crash the parent checks that every ref's closure (cut at the
commits listed in .git/shallow) is readable.

exit 1 = violation observed, exit 0 = every crash state was consistent.
"""
import os
import shutil
import subprocess
import sys
import tempfile

import dulwich

assert os.path.dirname(dulwich.__file__) == os.path.join(os.environ.get("VERIF_REPO", "/repo"), "dulwich"), dulwich.__file__

from dulwich import porcelain
from dulwich.objects import Blob, Commit, Tag, Tree
from dulwich.repo import Repo

os.environ["HOME"] = tempfile.mkdtemp(prefix="c09h1home")  # no user config


def mkcommit(r, parents, data, t):
    b = Blob.from_string(data)
    tree = Tree()
    tree.add(b"a", 0o100644, b.id)
    c = Commit()
    c.tree = tree.id
    c.parents = parents
    c.author = c.committer = b"A <a@b>"
    c.author_time = c.commit_time = t
    c.author_timezone = c.commit_timezone = 0
    c.message = b"c%d" % t
    for o in (b, tree, c):
        r.object_store.add_object(o)
    return c.id


def check(path):
    """Return a list of problems found in the repository at path."""
    problems = []
    try:
        r = Repo(path)
    except Exception as e:  # noqa: BLE001
        return [f"Repo() failed: {e!r}"]
    try:
        shallow = r.get_shallow()
        todo = []
        for name in r.refs.allkeys():
            try:
                todo.append((name, r.refs[name]))
            except KeyError:
                pass
        seen = set()
        while todo:
            why, sha = todo.pop()
            if sha in seen:
                continue
            seen.add(sha)
            try:
                o = r.object_store[sha]
            except KeyError:
                problems.append(f"object {sha.decode()} missing (needed by {why!r})")
                continue
            if isinstance(o, Commit):
                todo.append((sha, o.tree))
                if sha not in shallow:
                    todo.extend((sha, p) for p in o.parents)
            elif isinstance(o, Tree):
                todo.extend((sha, e.sha) for e in o.items() if e.mode != 0o160000)
            elif isinstance(o, Tag):
                todo.append((sha, o.object[1]))
    finally:
        r.close()
    if shutil.which("git"):
        p = subprocess.run(
            ["git", "-C", path, "fsck", "--no-dangling"], capture_output=True, text=True
        )
        if p.returncode != 0:
            problems.append("git fsck: " + (p.stdout + p.stderr).strip().replace("\n", " | "))
    return problems


def child(tgt, src, k):
    """Run the deepening fetch; die before the k-th rename/replace/unlink in tgt."""
    count = [0]

    def wrap(name):
        orig = getattr(os, name)

        def f(*a, **kw):
            if any(isinstance(x, (str, bytes)) and os.fsdecode(x).startswith(tgt) for x in a):
                count[0] += 1
                if count[0] == k:
                    os._exit(99)  # crash: nothing else runs, not even finally blocks
            return orig(*a, **kw)

        setattr(os, name, f)

    for n in ("rename", "replace", "remove", "unlink"):
        wrap(n)
    devnull = open(os.devnull, "wb")
    porcelain.fetch(tgt, src, depth=3, errstream=devnull)
    os._exit(0)


def main():
    top = tempfile.mkdtemp(prefix="c09h1")
    rc = 0
    try:
        src = os.path.join(top, "src")
        r = Repo.init(src, mkdir=True)
        prev = []
        for i in range(5):
            prev = [mkcommit(r, prev, b"%d\n" % i, 1000 + i)]
        r.refs[b"refs/heads/master"] = prev[0]
        r.close()

        tmpl = os.path.join(top, "tmpl")
        devnull = open(os.devnull, "wb")
        porcelain.clone(src, tmpl, depth=1, errstream=devnull).close()
        pre = check(tmpl)
        assert not pre, ("depth-1 clone is already inconsistent?", pre)
        print("depth-1 clone ok, shallow =", open(os.path.join(tmpl, ".git", "shallow")).read().split())

        k = 0
        while True:
            k += 1
            tgt = os.path.join(top, "tgt")
            if os.path.exists(tgt):
                shutil.rmtree(tgt)
            shutil.copytree(tmpl, tgt, symlinks=True)
            sys.stdout.flush()
            pid = os.fork()
            if pid == 0:
                try:
                    child(tgt, src, k)
                finally:
                    os._exit(3)
            _, st = os.waitpid(pid, 0)
            code = os.WEXITSTATUS(st)
            problems = check(tgt)
            if problems:
                rc = 1
                sh = os.path.join(tgt, ".git", "shallow")
                print(f"VIOLATION: crash before rename/replace/unlink #{k} of `fetch --depth=3` (child exit {code})")
                print("  .git/shallow now:", open(sh).read().split() if os.path.exists(sh) else "<absent>")
                print("  packs:", sorted(os.listdir(os.path.join(tgt, ".git", "objects", "pack"))))
                for p in problems:
                    print("  -", p)
                break
            if code != 99:
                # the fetch ran to completion without reaching crash point k
                assert code == 0, f"child failed with {code}"
                print(f"fetch completed after {k - 1} crash points; all crash states consistent")
                break
    finally:
        shutil.rmtree(top, ignore_errors=True)
        shutil.rmtree(os.environ["HOME"], ignore_errors=True)
    return rc


if __name__ == "__main__":
    sys.exit(main())
