"""F10.1: a reader looks in the packs (miss), then a concurrent pack_loose_objects packs the object and removes
its loose file, then the reader looks for the loose file (miss) -> spurious KeyError / False for an object that
exists throughout.  The other actor is interposed right before the reader's loose lookup."""
import os, sys, tempfile
sys.path.insert(0, '/repo')
from dulwich.repo import Repo
from dulwich.objects import Blob
from dulwich.object_store import DiskObjectStore

d = tempfile.mkdtemp(dir=os.environ.get('TMPDIR', '/tmp'))
r = Repo.init_bare(d)
b = Blob.from_string(b"payload"); r.object_store.add_object(b)
reader = Repo(d)
orig = DiskObjectStore._get_loose_object
state = {"done": False}
def interposed(self, sha):
    if self is reader.object_store and not state["done"]:
        state["done"] = True
        other = Repo(d); other.object_store.pack_loose_objects(); other.close()
    return orig(self, sha)
DiskObjectStore._get_loose_object = interposed
try:
    try:
        print("get_raw:", reader.object_store.get_raw(b.id)[1])
    except KeyError:
        print("get_raw: spurious KeyError")
    state["done"] = False
    b2 = Blob.from_string(b"payload2"); r.object_store.add_object(b2)
    print("contains:", b2.id in reader.object_store, "(expect True)")
finally:
    DiskObjectStore._get_loose_object = orig
