"""C14/C16: pack_refs turns a symbolic ref into a plain packed ref.

pack_refs(all=True) resolved refs/remotes/origin/HEAD, packed the resulting id and removed the loose (symbolic) file: the
ref no longer follows origin/master and goes stale as soon as the history continues ("packing refs changes nothing
observable" / "never changes ... ref values").  git pack-refs never packs symbolic refs.  Exit 1 when the symref is lost."""
import os, sys, tempfile, shutil
from dulwich.repo import Repo
from dulwich.objects import Tree, Commit
base = tempfile.mkdtemp(); path = os.path.join(base, "r")
r = Repo.init(path, mkdir=True)
t = Tree(); r.object_store.add_object(t)
def commit(n, parents):
    c = Commit(); c.tree = t.id; c.parents = parents; c.author = c.committer = b"a <a@b>"
    c.author_time = c.commit_time = n; c.author_timezone = c.commit_timezone = 0; c.message = b"m%d" % n
    r.object_store.add_object(c); return c.id
c1 = commit(1, []); c2 = commit(2, [c1])
r.refs[b"refs/remotes/origin/master"] = c1
r.refs.set_symbolic_ref(b"refs/remotes/origin/HEAD", b"refs/remotes/origin/master")
print("before pack_refs: origin/HEAD symbolic ->", r.refs.read_ref(b"refs/remotes/origin/HEAD"))
r.refs.pack_refs(all=True)
print("after  pack_refs: origin/HEAD raw value  ->", r.refs.read_ref(b"refs/remotes/origin/HEAD"))
r.refs[b"refs/remotes/origin/master"] = c2           # the history continues
ok = r.refs[b"refs/remotes/origin/HEAD"] == c2
print("origin/master moved to c2; origin/HEAD resolves to", "c2" if ok else "c1 (stale: the symbolic ref was turned into a plain packed ref)")
r.close(); shutil.rmtree(base); sys.exit(0 if ok else 1)
