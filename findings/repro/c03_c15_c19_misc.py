import os, tempfile, sys, gc, warnings
sys.path.insert(0,'/repo')
base=os.environ.get('TMPDIR','/tmp')
# (1) locked_index.__enter__ with corrupt index
from dulwich.index import locked_index
d = tempfile.mkdtemp(dir=base); p = os.path.join(d, "index")
open(p,"wb").write(b"DIRC\x00\x00\x00\x02\x00\x00\x00\x05garbage")
warnings.simplefilter("ignore")
try:
    with locked_index(p) as idx: pass
except Exception as e: print("(1) enter raised", type(e).__name__)
print("(1) lock left right after failure:", os.path.exists(p+".lock"))
gc.collect(); print("(1) after gc:", os.path.exists(p+".lock"))
# (2) sideband empty packet
from dulwich.client import _read_side_band64k_data
try: list(_read_side_band64k_data([b""]))
except Exception as e: print("(2) empty sideband pkt ->", type(e).__name__, e)
# (3) rust sorted_tree_items with str key
from dulwich.objects import sorted_tree_items, _sorted_tree_items_py
e = {"a": (0o100644, b"0"*40)}
try: print("(3) py:", list(_sorted_tree_items_py(e, False)))
except BaseException as x: print("(3) py raised", type(x).__name__)
try: print("(3) rs:", list(sorted_tree_items(e, False)))
except BaseException as x: print("(3) rs raised", type(x).__name__, "(BaseException subclass:", not isinstance(x, Exception), ")")
# (4) rust apply_delta giant dest size / wide varint
from dulwich.pack import apply_delta
from dulwich import pack as P
import subprocess
code = r'''
import sys; sys.path.insert(0,"/repo")
from dulwich.pack import apply_delta
src=b"abc"
delta=bytes([3]) + bytes([0xff]*8+[0x7f]) + bytes([1, 65])
try:
    apply_delta(src, delta); print("returned")
except BaseException as e: print("raised", type(e).__name__, str(e)[:60])
'''
r = subprocess.run(["/venv/bin/python","-c",code],capture_output=True,text=True)
print("(4) rust huge dest_size: rc=",r.returncode, (r.stdout+r.stderr).strip()[-120:])
code2 = code.replace("bytes([0xff]*8+[0x7f])","bytes([0x80]*11+[0x01])")
r = subprocess.run(["/venv/bin/python","-c",code2],capture_output=True,text=True)
print("(4b) rust 12-byte varint: rc=",r.returncode, (r.stdout+r.stderr).strip()[-160:])
from dulwich.pack import _create_delta_py
