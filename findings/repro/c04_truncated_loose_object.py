#!/usr/bin/env python
"""C04 / h2 -- a truncated loose object is read as a shorter object, without any error.

dulwich.objects._decompress() inflates a loose object with a zlib
decompressobj and never checks that the deflate stream actually ENDED
(decompressobj.eof).  zlib.decompressobj -- unlike zlib.decompress -- does not
complain about a stream that stops in the middle, so a loose object file cut
short at (almost) any byte is returned as an object with less content.  The
object keeps the name taken from its file name, i.e. it no longer hashes to the
name it is stored under.

Only BaseObjectStore.__getitem__ re-hashes what it got (ChecksumMismatch); the
other read paths -- DiskObjectStore.get_raw(), iterobjects_subset(),
ShaFile.from_path(path, sha), and everything built on _get_loose_object()
such as pack_loose_objects()/repack -- hand out the short data silently.

Part A enumerates EVERY truncation point of a small loose blob.
Part B shows a consequence: pack_loose_objects() turns the cut-short object
into a different, validly named object and deletes the original.

exit 1 = at least one truncation was read back silently as different data
exit 0 = every truncation is either rejected with an error or harmless
"""

import hashlib
import os
import shutil
import subprocess
import sys
import tempfile
import warnings

import dulwich

pass  # run against the installed dulwich (/repo)

from dulwich.object_store import DiskObjectStore
from dulwich.objects import Blob, ShaFile

warnings.simplefilter("ignore")

CONTENT = b"".join(b"line %03d of an important file\n" % i for i in range(150))


def git_name(data):
    return hashlib.sha1(b"blob %d\0" % len(data) + data).hexdigest().encode()


def read_via(api, store, path, oid):
    """Return the bytes this API hands out for object `oid`."""
    if api == "store.get_raw(sha)":
        return store.get_raw(oid)[1]
    if api == "store.iterobjects_subset([sha])":
        (obj,) = list(store.iterobjects_subset([oid]))
        assert obj.id == oid, (obj.id, oid)  # it claims the requested name
        return obj.as_raw_string()
    if api == "ShaFile.from_path(path, sha)":
        obj = ShaFile.from_path(path, oid)
        assert obj.id == oid, (obj.id, oid)
        return obj.as_raw_string()
    if api == "store[sha]":
        return store[oid].as_raw_string()
    raise AssertionError(api)


def part_a(findings):
    tmp = tempfile.mkdtemp(prefix="c04-h2a-")
    try:
        subprocess.check_call(["git", "init", "-q", "--bare", tmp])
        store = DiskObjectStore(os.path.join(tmp, "objects"))
        blob = Blob.from_string(CONTENT)
        store.add_object(blob)
        oid = blob.id
        assert oid == git_name(CONTENT)
        path = store._get_shafile_path(oid)
        os.chmod(path, 0o644)
        whole = open(path, "rb").read()
        print(f"loose blob {oid.decode()}: {len(CONTENT)} bytes, file of {len(whole)} bytes")

        apis = [
            "store[sha]",
            "store.get_raw(sha)",
            "store.iterobjects_subset([sha])",
            "ShaFile.from_path(path, sha)",
        ]
        for api in apis:
            silent, errors, intact = [], 0, 0
            for cut in range(1, len(whole)):
                with open(path, "wb") as f:
                    f.write(whole[:cut])
                try:
                    data = read_via(api, store, path, oid)
                except Exception:  # noqa: BLE001 - any ordinary error is fine
                    errors += 1
                    continue
                if git_name(data) == oid:
                    intact += 1  # only the zlib checksum was cut off: harmless
                else:
                    silent.append((cut, len(data)))
            print(f"  {api:34s} errors={errors:4d} intact={intact:2d} "
                  f"silently-short={len(silent):4d}"
                  + (f"   e.g. file cut at {silent[len(silent)//2][0]} -> "
                     f"{silent[len(silent)//2][1]} of {len(CONTENT)} bytes" if silent else ""))
            if silent:
                findings.append(
                    f"{api}: {len(silent)} of {len(whole) - 1} truncation points of the loose "
                    f"object file return shorter content under the name {oid.decode()} "
                    f"with no error"
                )

        # What C git says about one of these files
        with open(path, "wb") as f:
            f.write(whole[: len(whole) // 2])
        r = subprocess.run(
            ["git", "-C", tmp, "cat-file", "blob", oid.decode()], capture_output=True
        )
        print(f"  C git cat-file on the file cut in half: rc={r.returncode} "
              f"stderr={r.stderr.decode().strip()!r}")
        store.close()
    finally:
        shutil.rmtree(tmp, ignore_errors=True)


def part_b(findings):
    tmp = tempfile.mkdtemp(prefix="c04-h2b-")
    try:
        subprocess.check_call(["git", "init", "-q", "--bare", tmp])
        store = DiskObjectStore(os.path.join(tmp, "objects"))
        blob = Blob.from_string(CONTENT)
        store.add_object(blob)
        oid = blob.id
        path = store._get_shafile_path(oid)
        os.chmod(path, 0o644)
        whole = open(path, "rb").read()
        with open(path, "wb") as f:
            f.write(whole[: len(whole) // 2])  # e.g. a crash / full disk
        try:
            n = store.pack_loose_objects()
            outcome = f"returned {n}"
        except Exception as exc:  # noqa: BLE001
            outcome = f"raised {type(exc).__name__}: {exc}"
        store.close()
        store = DiskObjectStore(os.path.join(tmp, "objects"))
        names = sorted(store)
        print(f"  pack_loose_objects() on a store holding the cut-short blob: {outcome}")
        print(f"    objects afterwards: {[n.decode() for n in names]}")
        print(f"    original name still present: {oid in names}; loose file still there: "
              f"{os.path.exists(path)}")
        if outcome.startswith("returned") and oid not in names:
            other = [n for n in names if n != oid]
            size = len(store[other[0]].as_raw_string()) if other else None
            findings.append(
                f"pack_loose_objects() reported success, removed {oid.decode()} and stored "
                f"its first {size} bytes as new object {other[0].decode() if other else None}"
            )
        store.close()
    finally:
        shutil.rmtree(tmp, ignore_errors=True)


def main():
    findings = []
    print("Part A: every truncation point of a loose object")
    part_a(findings)
    print("Part B: consequence for repacking")
    part_b(findings)
    if findings:
        print()
        print("VIOLATION: truncated loose objects are read as different data without error:")
        for f in findings:
            print("  -", f)
        return 1
    print("OK: every truncated loose object was rejected")
    return 0


if __name__ == "__main__":
    sys.exit(main())
