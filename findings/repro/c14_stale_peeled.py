"""C14: peeled values taken from packed-refs change the answer of Repo.get_peeled / the upload-pack advertisement.

Four cases, each compares DiskRefsContainer.get_peeled(name) with peeling the ref's CURRENT value through the objects
(None = "not cached" is always acceptable):
  A  loose override     packed tag re-created as a loose ref: the packed (old) peeled value was served      [fixed 417d8dd]
  B  stale ^ line       add_packed_refs of a moved tag kept the old "^<sha>" line under the new target      [fixed bd18fe6]
  C  no trait           a packed-refs file without "# pack-refs with: peeled": every packed ref was reported as
                        known-not-a-tag, so the tag object itself came back as the peeled value               [fixed b176e85]
  D  new tag packed     pack_refs of a NEW annotated tag writes the "peeled" header but no "^" line: the ref is declared
                        not peelable to dulwich and to git [fixed: the trait is not claimed]
Exit 1 when a case disagrees."""
import os, sys, tempfile, shutil
from dulwich.repo import Repo
from dulwich.objects import Tree, Commit, Tag
from dulwich.refs import Ref

def setup():
    base = tempfile.mkdtemp(); path = os.path.join(base, "r")
    r = Repo.init(path, mkdir=True)
    t = Tree(); r.object_store.add_object(t)
    def commit(n):
        c = Commit(); c.tree = t.id; c.parents = []; c.author = c.committer = b"a <a@b>"
        c.author_time = c.commit_time = n; c.author_timezone = c.commit_timezone = 0; c.message = b"m%d" % n
        r.object_store.add_object(c); return c
    def tag(c, n):
        g = Tag(); g.name = b"v1"; g.object = (Commit, c.id); g.tagger = b"a <a@b>"; g.tag_time = n; g.tag_timezone = 0; g.message = b"t%d" % n
        r.object_store.add_object(g); return g
    c1, c2 = commit(1), commit(2)
    return base, path, r, c1, c2, tag(c1, 1), tag(c2, 2)

name = Ref(b"refs/tags/v1")
def verdict(path, label):
    r2 = Repo(path)
    truth = r2.get_object(r2.refs[name]).object[1]
    got = r2.refs.get_peeled(name)
    ok = got in (None, truth)
    print(f"{label}: current value peels to {truth.decode()[:8]}, get_peeled -> {None if got is None else got.decode()[:8]}  {'ok' if ok else 'WRONG'}")
    r2.close()
    return ok

bad = 0
# A
base, path, r, c1, c2, t1, t2 = setup()
open(os.path.join(path, ".git", "packed-refs"), "wb").write(b"# pack-refs with: peeled fully-peeled sorted \n" + t1.id + b" refs/tags/v1\n^" + c1.id + b"\n")
r.refs[name] = t2.id
bad += not verdict(path, "A loose override")
r.close(); shutil.rmtree(base)
# B
base, path, r, c1, c2, t1, t2 = setup()
open(os.path.join(path, ".git", "packed-refs"), "wb").write(b"# pack-refs with: peeled fully-peeled sorted \n" + t1.id + b" refs/tags/v1\n^" + c1.id + b"\n")
r.refs.add_packed_refs({name: t2.id})
bad += not verdict(path, "B stale ^ line  ")
r.close(); shutil.rmtree(base)
# C
base, path, r, c1, c2, t1, t2 = setup()
open(os.path.join(path, ".git", "packed-refs"), "wb").write(t1.id + b" refs/tags/v1\n")
bad += not verdict(path, "C no trait      ")
r.close(); shutil.rmtree(base)
# D (known)
base, path, r, c1, c2, t1, t2 = setup()
r.refs[name] = t1.id
r.refs.pack_refs(all=True)
bad += not verdict(path, "D new tag packed")
r.close(); shutil.rmtree(base)
sys.exit(1 if bad else 0)
