"""C14: a multi-pack-index as C git writes it for a pack between 2 and 4 GiB makes lookups raise.

C git writes the large-offset (LOFF) chunk only when some offset needs more than 32 bits; offsets between 2^31 and 2^32
are then stored as plain 32-bit values with their top bit set.  MultiPackIndex._get_pack_info took that top bit for the
"look in LOFF" escape unconditionally and raised ValueError("Large offset found but no LOFF chunk"); the ValueError is
not among the exceptions the object store treats as a miss, so `sha in store` / `store[sha]` raised while the same
repository without the multi-pack-index answers.  This script builds the file without a 2 GiB pack: a MIDX with one
small offset is written and the stored 32-bit offset patched to 0x80000005, the LOFF chunk being absent (trailer
recomputed).  Expected: object_offset() returns 0x80000005.  Exit 1 when it raises or answers something else."""
import hashlib, io, struct, sys, tempfile, os, shutil
from dulwich.midx import write_midx, load_midx
sha = bytes(range(20))
buf = io.BytesIO()
write_midx(buf, [("pack-x.idx", [(sha, 5, None)])])
data = bytearray(buf.getvalue())
body = bytes(data[:-20])
i = body.rfind(struct.pack(">LL", 0, 5))
assert i > 0, "OOFF entry not found"
body = body[:i] + struct.pack(">LL", 0, 0x80000005) + body[i + 8:]
assert b"LOFF" not in body
d = tempfile.mkdtemp(); p = os.path.join(d, "multi-pack-index")
open(p, "wb").write(body + hashlib.sha1(body).digest())
rc = 0
try:
    m = load_midx(p)
    got = m.object_offset(sha)
    print("object_offset ->", got)
    if not got or got[1] != 0x80000005:
        rc = 1
except Exception as e:  # noqa: BLE001
    print("raised:", type(e).__name__, e); rc = 1
finally:
    shutil.rmtree(d)
sys.exit(rc)
