#!/usr/bin/env python
"""C13 / h3: an annotated tag given as an EXCLUDE point is walked as an INCLUDE point.

History (timestamps strictly increase from parent to child, no clock skew):

    c0 <- c1 <- c2 <- c3          refs/heads/main -> c3
          ^
          refs/tags/v1  (annotated tag object -> c1)

    s0 <- s1                      unrelated side history
          ^
          refs/tags/side (annotated tag object -> s1)

"What happened on main since v1":
    git rev-list main ^v1                       -> c3 c2
    repo.get_walker(include=[main], exclude=[repo.refs[b"refs/tags/v1"]])
                                                -> c3 c2 c1 c0      (nothing excluded)
and with exclude=[refs/tags/side] the walk even yields s1 and s0, which are not
reachable from the starting point at all.

The walker peels tag objects when it queues them (it accepts them as include
points and gets those right), but the excluded *set* keeps the id of the tag
object, so the peeled commit is never recognised as excluded and is emitted like
an included one.

Exit status 1 = violation observed, 0 = library behaves as the property says.
"""

import shutil
import subprocess
import sys
import tempfile

import dulwich

pass  # run against the installed dulwich (/repo)

from dulwich.objects import Commit, Tag, Tree
from dulwich.repo import Repo

BASE = 1_000_000_000


def main():
    tmp = tempfile.mkdtemp(prefix="c13-h3-")
    failures = []
    try:
        repo = Repo.init(tmp)
        tree = Tree()
        repo.object_store.add_object(tree)
        ids = {}

        def commit(name, parents, when):
            c = Commit()
            c.tree = tree.id
            c.parents = [ids[p] for p in parents]
            c.author = c.committer = b"A U Thor <a@example.com>"
            c.author_time = c.commit_time = BASE + when
            c.author_timezone = c.commit_timezone = 0
            c.message = name.encode()
            repo.object_store.add_object(c)
            ids[name] = c.id

        def tag(name, target):
            t = Tag()
            t.name = name.encode()
            t.object = (Commit, ids[target])
            t.tagger = b"A U Thor <a@example.com>"
            t.tag_time = BASE + 1000
            t.tag_timezone = 0
            t.message = b"release\n"
            repo.object_store.add_object(t)
            repo.refs[b"refs/tags/" + name.encode()] = t.id
            return t.id

        commit("c0", [], 10)
        commit("c1", ["c0"], 20)
        commit("c2", ["c1"], 30)
        commit("c3", ["c2"], 40)
        commit("s0", [], 15)
        commit("s1", ["s0"], 25)
        repo.refs[b"refs/heads/main"] = ids["c3"]
        v1 = tag("v1", "c1")
        side = tag("side", "s1")
        names = {v: k for k, v in ids.items()}

        def dulwich_walk(include, exclude, **kw):
            return [
                names[e.commit.id]
                for e in repo.get_walker(include=include, exclude=exclude, **kw)
            ]

        def git_walk(*args):
            out = subprocess.run(
                ["git", "-C", tmp, "rev-list", *args],
                capture_output=True, text=True, check=True,
            ).stdout.split()
            return [names[x.encode()] for x in out]

        main_id = repo.refs[b"refs/heads/main"]

        # sanity: the tag works as an include point, and the peeled commit works
        # as an exclude point
        assert dulwich_walk([v1], []) == ["c1", "c0"]
        assert dulwich_walk([main_id], [ids["c1"]]) == ["c3", "c2"]

        cases = [
            ("main ^v1", [main_id], [v1], ["main", "^" + v1.decode()]),
            ("main ^side", [main_id], [side], ["main", "^" + side.decode()]),
            ("main ^v1 (topo)", [main_id], [v1], ["--topo-order", "main", "^" + v1.decode()]),
        ]
        for label, include, exclude, gitargs in cases:
            kw = {"order": "topo"} if "topo" in label else {}
            got = dulwich_walk(include, exclude, **kw)
            want = git_walk(*gitargs)
            ok = got == want
            print(f"{label:18}: dulwich={got}  git rev-list={want}  -> {'ok' if ok else 'WRONG'}")
            if not ok:
                failures.append(label)
        repo.close()
    finally:
        shutil.rmtree(tmp, ignore_errors=True)

    if failures:
        print(
            "VIOLATION: commits reachable from an excluded point (an annotated tag) "
            "are yielded, including commits that are not reachable from the "
            f"starting point at all: {failures}"
        )
        return 1
    print("excluding by annotated tag removes the tagged commit and its ancestors")
    return 0


if __name__ == "__main__":
    sys.exit(main())
