#!/usr/bin/env python
"""C13 / h2: order=topo with max_entries yields a parent although its child is cut off.

History (a diamond, the clock of the machine that made C ran behind):

    D (t=100)  tip, parents B and C
    B (t= 90)  parent A
    C (t= 50)  parent A        <- older timestamp than its own parent A
    A (t= 80)  root

Every topological order of these four commits starts with D and ends with A, so
the first three entries of a topological walk are {D, B, C} -- that is what
`git rev-list --topo-order -n 3 D` prints.

dulwich: list(repo.get_walker([D], order="topo", max_entries=3)) gives D, B, A:
the root A is reported, its child C (reachable from D, not excluded) is not.
The output is not a prefix of any topological order: a parent is emitted before
(instead of) its child.  With max_entries=4 the third entry changes to C.

Second manifestation of the same flaw (the topological sort runs last, on what
is left after limiting/filtering): with paths=[b"f"] the commit E between C and
A is filtered out before the sort, the sort no longer knows that A is below C,
and the creation of f (A) is listed before a later change of f (C).
git rev-list --topo-order D -- f lists A last.

Exit status 1 = violation observed, 0 = library behaves as the property says.
"""

import shutil
import subprocess
import sys
import tempfile

import dulwich

pass  # run against the installed dulwich (/repo)

from dulwich.objects import Blob, Commit, Tree
from dulwich.repo import Repo

GRAPH = {  # name -> (parents, commit time); insertion order is parents first
    "A": ([], 80),
    "B": (["A"], 90),
    "C": (["A"], 50),
    "D": (["B", "C"], 100),
}
BASE = 1_000_000_000


def children_first_prefix(seq, universe):
    """True if seq can be extended to a topological order of universe
    (every listed commit has all of its children in universe listed before it)."""
    seen = set()
    for name in seq:
        for child, (parents, _) in GRAPH.items():
            if child in universe and name in parents and child not in seen:
                return False
        seen.add(name)
    return True


def main():
    tmp = tempfile.mkdtemp(prefix="c13-h2-")
    bad = []
    try:
        repo = Repo.init(tmp)
        tree = Tree()
        repo.object_store.add_object(tree)
        ids = {}
        for name, (parents, when) in GRAPH.items():
            c = Commit()
            c.tree = tree.id
            c.parents = [ids[p] for p in parents]
            c.author = c.committer = b"A U Thor <a@example.com>"
            c.author_time = c.commit_time = BASE + when
            c.author_timezone = c.commit_timezone = 0
            c.message = name.encode()
            repo.object_store.add_object(c)
            ids[name] = c.id
        names = {v: k for k, v in ids.items()}
        universe = set(GRAPH)  # everything is reachable from D

        full = [names[e.commit.id] for e in repo.get_walker([ids["D"]], order="topo")]
        print("topo walk without limit          :", full)

        for n in (1, 2, 3, 4):
            got = [
                names[e.commit.id]
                for e in repo.get_walker([ids["D"]], order="topo", max_entries=n)
            ]
            cgit = [
                names[x.encode()]
                for x in subprocess.run(
                    ["git", "-C", tmp, "rev-list", "--topo-order", f"-n{n}", ids["D"].decode()],
                    capture_output=True, text=True, check=True,
                ).stdout.split()
            ]
            # The order among unrelated commits (B, C) is a free choice, so the
            # judgement is only: is the output the beginning of SOME topological
            # order of the reachable commits?  (For n=3 that forces {D, B, C}.)
            ok_prefix = children_first_prefix(got, universe) and len(got) == n
            assert children_first_prefix(cgit, universe), "C git itself is off?"
            print(
                f"max_entries={n}: dulwich={got}  git rev-list --topo-order -n{n}={cgit}  "
                f"beginning of a topological order: {ok_prefix}"
            )
            if not ok_prefix:
                bad.append(n)
        repo.close()
        bad_paths = paths_variant()
    finally:
        shutil.rmtree(tmp, ignore_errors=True)

    if bad_paths:
        print(
            "VIOLATION: with order='topo' and paths=[b'f'] an ancestor is yielded "
            "before its descendant (its child in the path-limited history): "
            f"{bad_paths}"
        )
    if bad:
        print(
            "VIOLATION: with order='topo' and max_entries in "
            f"{bad} the walker returned a parent whose (reachable, non-excluded) "
            "child was left out; C git returns the child instead"
        )
        return 1
    if bad_paths:
        return 1
    print("topo walk with max_entries/paths respects the ancestry order")
    return 0


def paths_variant():
    """D -> B -> A and D -> C -> E -> A; E does not touch f; C and E are older than A."""
    graph = {  # name -> (parents, time, content of f, content of g)
        "A": ([], 80, b"a", b"0"),
        "E": (["A"], 40, b"a", b"1"),
        "C": (["E"], 50, b"c", b"1"),
        "B": (["A"], 90, b"b", b"0"),
        "D": (["B", "C"], 100, b"d", b"1"),
    }

    def anc(name):
        seen = {name}
        todo = [name]
        while todo:
            for p in graph[todo.pop()][0]:
                if p not in seen:
                    seen.add(p)
                    todo.append(p)
        return seen

    tmp = tempfile.mkdtemp(prefix="c13-h2b-")
    try:
        repo = Repo.init(tmp)
        ids = {}
        for name, (parents, when, f, g) in graph.items():
            tree = Tree()
            for fname, data in ((b"f", f), (b"g", g)):
                blob = Blob.from_string(data)
                repo.object_store.add_object(blob)
                tree.add(fname, 0o100644, blob.id)
            repo.object_store.add_object(tree)
            c = Commit()
            c.tree = tree.id
            c.parents = [ids[p] for p in parents]
            c.author = c.committer = b"A U Thor <a@example.com>"
            c.author_time = c.commit_time = BASE + when
            c.author_timezone = c.commit_timezone = 0
            c.message = name.encode()
            repo.object_store.add_object(c)
            ids[name] = c.id
        names = {v: k for k, v in ids.items()}
        got = [
            names[e.commit.id]
            for e in repo.get_walker([ids["D"]], order="topo", paths=[b"f"])
        ]
        cgit = [
            names[x.encode()]
            for x in subprocess.run(
                ["git", "-C", tmp, "rev-list", "--topo-order", ids["D"].decode(), "--", "f"],
                capture_output=True, text=True, check=True,
            ).stdout.split()
        ]
        repo.close()
    finally:
        shutil.rmtree(tmp, ignore_errors=True)
    print(f"paths=[f], order=topo: dulwich={got}  git rev-list --topo-order D -- f={cgit}")
    return [
        (a, d)
        for i, a in enumerate(got)
        for d in got[i + 1 :]
        if a != d and a in anc(d)
    ]


if __name__ == "__main__":
    sys.exit(main())
