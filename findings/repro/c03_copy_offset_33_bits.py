"""C03 / h2 -- create_delta silently truncates copy offsets >= 2**32: the delta applies without error
but yields the wrong bytes.

base   = 4 GiB of zero bytes followed by Y (Y = bytes(range(256)) * 4, 1024 bytes)
target = Y

Every match the encoder can find for Y[1:] lies at base offset >= 2**32.  The delta format has room
for 4 offset bytes only; `encode_copy_operation` (Rust) / `_encode_copy_operation` (Python) loop
`for i in range(4)` over the offset bytes and silently drop everything above bit 31.  The produced
delta is well-formed, both decoders accept it, and the result is 1024 zero bytes instead of Y.

The base is one calloc()ed bytes object (4 GiB of address space, hardly any resident memory), so the
demo runs in well under a second.  The end-to-end part needs the Rust extension (difflib cannot walk
a 4 GiB base in reasonable time); without it only the Python helper is checked.

Run:  cd /repo && PYTHONPATH=/repo /venv/bin/python /repo-out/h2/demo.py
exit 1 = violation observed, exit 0 = round trip correct (or the encoder declines with an exception),
exit 2 = cannot run here (no address space / no Rust extension and helper check inconclusive).
"""

import ctypes
import sys

import dulwich

pass  # run against the installed dulwich (/repo)

from dulwich import pack as P
from dulwich.errors import ApplyDeltaError

FOUR_GIB = 2**32
Y = bytes(range(256)) * 4


def helper_check() -> bool:
    """The pure Python helper: does it distinguish offset 2**32+1 from offset 1?"""
    a = P._encode_copy_operation(FOUR_GIB + 1, 1023)
    b = P._encode_copy_operation(1, 1023)
    print(f"_encode_copy_operation(2**32+1, 1023) = {a.hex()}")
    print(f"_encode_copy_operation(1,       1023) = {b.hex()}")
    return a == b


def big_base() -> bytes:
    """4 GiB of zeros followed by Y, as one bytes object.

    bytes(n) is calloc()ed, i.e. backed by untouched zero pages, so this costs address space but
    almost no RAM or time.  Y is then written into the tail of the freshly created object through
    the C API (PyBytes_AsString on an object nobody else has seen yet), which is the documented way
    to fill a new bytes object.  (Reading a sparse file of the same shape with f.read() gives the
    same object and the same result, it just touches 4 GiB of memory.)
    """
    data = bytes(FOUR_GIB + len(Y))
    ctypes.pythonapi.PyBytes_AsString.restype = ctypes.c_void_p
    ctypes.pythonapi.PyBytes_AsString.argtypes = [ctypes.py_object]
    addr = ctypes.pythonapi.PyBytes_AsString(data)
    ctypes.memmove(addr + FOUR_GIB, Y, len(Y))
    assert len(data) == FOUR_GIB + len(Y)
    return data


def main() -> int:
    py_truncates = helper_check()
    if py_truncates:
        print("-> the Python encoder helper emits the same op for both offsets (bits >= 32 dropped)\n")

    have_rust = getattr(P.create_delta, "__name__", "") == "_create_delta_rs_wrapper"
    if not have_rust:
        print("Rust extension not available: the end-to-end run with difflib is not feasible.")
        return 1 if py_truncates else 2

    try:
        base = big_base()
    except MemoryError:
        print("cannot allocate 4 GiB of address space here")
        return 1 if py_truncates else 2
    assert base[FOUR_GIB:] == Y and base[:16] == bytes(16)

    try:
        delta = b"".join(P.create_delta(base, Y))
    except (ValueError, OverflowError, ApplyDeltaError) as e:
        print(f"encoder declines the pair cleanly: {type(e).__name__}: {e}")
        return 0
    print(f"create_delta(base, Y) = {delta.hex()}  ({len(delta)} bytes)")

    try:
        out = b"".join(P.apply_delta(base, delta))
    except ApplyDeltaError as e:
        print(f"VIOLATION: the library's own delta for (base, Y) does not apply: {e}")
        return 1
    del base
    if out == Y:
        print("OK: apply(create(base, Y), base) == Y")
        return 0
    first_bad = next(i for i in range(len(Y)) if i >= len(out) or out[i] != Y[i])
    print(
        f"VIOLATION: apply(create(base, Y), base) != Y  (len {len(out)} vs {len(Y)}, first difference "
        f"at byte {first_bad}: got {out[first_bad:first_bad + 8].hex()}, want {Y[first_bad:first_bad + 8].hex()});\n"
        "no error was raised by either side -- the copy offset 2**32+1 was encoded as 1."
    )
    return 1


if __name__ == "__main__":
    sys.exit(main())
