import os, tempfile, shutil, sys, io
sys.path.insert(0,'/repo')
from dulwich.repo import Repo, MemoryRepo
from dulwich.objects import Blob, Tree, Commit, ZERO_SHA
from dulwich.refs import Ref
from dulwich.file import GitFile, FileLocked
import dulwich.file as dfile

# C07-1: close() success path removes someone else's lock
d = tempfile.mkdtemp(dir=os.environ.get('TMPDIR','/tmp'))
p = os.path.join(d, "target")
f = GitFile(p, "wb"); f.write(b"one")
orig_replace = os.replace
other = {}
def racing_replace(a, b):
    orig_replace(a, b)
    # another actor acquires the lock right after our rename
    other['f'] = GitFile(p, "wb"); other['f'].write(b"two")
os.replace = racing_replace
try:
    f.close()
finally:
    os.replace = orig_replace
print("C07-1 other's lock still exists (expect True):", os.path.exists(p + ".lock"))
try:
    g = GitFile(p, "wb"); print("C07-1 third actor acquired lock while second holds it -> mutual exclusion broken"); g.abort()
except FileLocked: print("C07-1 third actor correctly locked out")
try: other['f'].close()
except Exception as e: print("C07-1 second actor close failed:", type(e).__name__, e)

# C07-2: flush failure leaves lock
p2 = os.path.join(d, "t2")
f = GitFile(p2, "wb")
class Boom(OSError): pass
real = f._file
class W:
    def __getattr__(s, n): return getattr(real, n)
    def flush(s): raise Boom(28, "ENOSPC")
f._file = W()
try: f.close()
except OSError as e: print("C07-2 close raised", e)
print("C07-2 lock left behind (expect False):", os.path.exists(p2 + ".lock"))
f._file = real; f.abort()

# C07-3 Index.write error path commits partial file
from dulwich.index import Index, IndexEntry
ip = os.path.join(d, "index")
i = Index(ip, read=False)
good = IndexEntry(ctime=0,mtime=0,dev=0,ino=0,mode=0o100644,uid=0,gid=0,size=0,sha=b"e69de29bb2d1d6434b8b29ae775ad8c2e48c5391",flags=0,extended_flags=0)
i[b"a"] = good; i.write()
before = open(ip,'rb').read()
i[b"b"] = good._replace(size=2**40) if hasattr(good,'_replace') else good
try:
    import dataclasses
    i[b"b"] = dataclasses.replace(good, size=2**40)
except Exception as e: pass
try: i.write()
except Exception as e: print("C07-3 write raised", type(e).__name__)
after = open(ip,'rb').read()
print("C07-3 old content preserved (expect True):", before == after, len(before), len(after), "lock left:", os.path.exists(ip+".lock"))
