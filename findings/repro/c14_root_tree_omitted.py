"""C14: the two reachability providers disagree about a commit's ROOT TREE.

GraphTraversalReachability.get_reachable_objects() (used when no bitmap covers the query) collected the entries of every
commit's tree with _collect_filetree_revs, which adds what a tree CONTAINS but not the tree it starts from; the bitmap of
a commit has the bit of its root tree set.  So the "reachable objects" of the same commit differed with and without a
.bitmap file by exactly the root trees.  Expected: commit, root tree, sub-tree and blobs.  Exit 1 when one is missing."""
import sys
from dulwich.object_store import MemoryObjectStore, GraphTraversalReachability
from dulwich.objects import Blob, Tree, Commit

s = MemoryObjectStore()
b = Blob.from_string(b"x\n"); s.add_object(b)
sub = Tree(); sub.add(b"f", 0o100644, b.id); s.add_object(sub)
root = Tree(); root.add(b"d", 0o040000, sub.id); root.add(b"g", 0o100644, b.id); s.add_object(root)
c = Commit(); c.tree = root.id; c.parents = []; c.author = c.committer = b"a <a@b>"; c.author_time = c.commit_time = 1
c.author_timezone = c.commit_timezone = 0; c.message = b"m"; s.add_object(c)
got = GraphTraversalReachability(s).get_reachable_objects([c.id])
want = {c.id, root.id, sub.id, b.id}
print("missing from the graph-traversal answer:", {k: type(s[k]).__name__ for k in want - got})
sys.exit(1 if want - got else 0)
