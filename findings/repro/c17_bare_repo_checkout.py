#!/usr/bin/env python
"""C17 / h3: path-restricted checkout (checkout(paths=), restore(), reset_file())
and WorkTree.reset_index() materialise tree entries INSIDE the control directory
when Repo.path is the control directory -- a bare repository, or an ordinary
non-bare repository that was located through GIT_DIR (no GIT_WORK_TREE), which
dulwich opens as Repo(controldir=...) with path == controldir.

Run:  cd /repo && PYTHONPATH=/repo /venv/bin/python /repo-out/h3/demo.py

The tree that is checked out contains only names that are perfectly valid in a
work tree:      hooks/pre-commit  (0755)      config

Part A (ordinary repository <base>/wt, control dir <base>/wt/.git, environment
        GIT_DIR=<base>/wt/.git as git itself sets it when running hooks):
    porcelain.restore(None, [b"hooks/pre-commit"], source=b"HEAD")
    porcelain.checkout(None, b"HEAD", paths=[b"hooks/pre-commit"])
  -> <base>/wt/.git/hooks/pre-commit is created, executable.

Part B (bare repository <base>/site.git):
    checkout(paths=), restore(source=), reset_file()  -> site.git/hooks/pre-commit created
    repo.get_worktree().reset_index(tree)             -> additionally site.git/config overwritten

Expected (property C17: nothing is created/overwritten inside the .git directory;
C git: "fatal: this operation must be run in a work tree"; dulwich's own
reset --hard / checkout <commit> refuse with NoIndexPresent before writing):
the control directory's hooks/ and config are untouched.

Exit status: 1 if a hook was created or the config was overwritten, else 0.
"""

import os
import shutil
import sys
import tempfile

import dulwich

pass  # run against the installed dulwich (/repo)

from dulwich import porcelain
from dulwich.objects import Blob, Commit, Tree
from dulwich.repo import Repo

HOOK = b"#!/bin/sh\necho pwned\n"


def commit(store, tree_id, parents=()):
    c = Commit()
    c.tree = tree_id
    c.parents = list(parents)
    c.author = c.committer = b"A U Thor <author@example.invalid>"
    c.author_time = c.commit_time = 0
    c.author_timezone = c.commit_timezone = 0
    c.message = b"msg\n"
    store.add_object(c)
    return c.id


def fill(r):
    blob = Blob.from_string(HOOK)
    r.object_store.add_object(blob)
    hooks = Tree()
    hooks.add(b"pre-commit", 0o100755, blob.id)
    r.object_store.add_object(hooks)
    t = Tree()
    t.add(b"hooks", 0o040000, hooks.id)
    t.add(b"config", 0o100644, blob.id)
    r.object_store.add_object(t)
    c = commit(r.object_store, t.id)
    r.refs[b"refs/heads/master"] = c
    r.refs.set_symbolic_ref(b"HEAD", b"refs/heads/master")
    return t.id, c


def control_state(controldir):
    hook = os.path.join(controldir, "hooks", "pre-commit")
    with open(os.path.join(controldir, "config"), "rb") as f:
        cfg = f.read()
    if os.path.lexists(hook):
        with open(hook, "rb") as f:
            return (oct(os.stat(hook).st_mode & 0o777), f.read()), cfg
    return None, cfg


def attempt(label, controldir, fn, problems):
    hook_before, cfg_before = control_state(controldir)
    outcome = "returned normally"
    try:
        fn()
    except BaseException as e:  # a refusal is fine -- as long as nothing was written
        outcome = "raised %s" % type(e).__name__
    hook_after, cfg_after = control_state(controldir)
    if hook_after != hook_before:
        problems.append(
            "%s (%s): created %s %r"
            % (label, outcome, os.path.join(controldir, "hooks", "pre-commit"), hook_after)
        )
    if cfg_after != cfg_before:
        problems.append(
            "%s (%s): overwrote %s with %r" % (label, outcome, os.path.join(controldir, "config"), cfg_after)
        )
    # restore the control directory for the next attempt
    hook = os.path.join(controldir, "hooks", "pre-commit")
    if os.path.lexists(hook):
        os.unlink(hook)
    with open(os.path.join(controldir, "config"), "wb") as f:
        f.write(cfg_before)


def main():
    problems = []
    base = tempfile.mkdtemp(prefix="c17-h3-")
    saved_env = {k: os.environ.get(k) for k in ("GIT_DIR", "GIT_WORK_TREE")}
    saved_cwd = os.getcwd()
    try:
        # ---- Part A: ordinary repository, located through GIT_DIR ----------
        wt = os.path.join(base, "wt")
        os.mkdir(wt)
        r = Repo.init(wt)
        _tree, c = fill(r)
        porcelain.reset(r, "hard", c)  # normal checkout: <wt>/hooks/pre-commit, <wt>/config
        r.close()
        assert os.path.isfile(os.path.join(wt, "hooks", "pre-commit"))
        controldir = os.path.join(wt, ".git")
        os.environ["GIT_DIR"] = controldir
        os.environ.pop("GIT_WORK_TREE", None)
        os.chdir(wt)
        attempt(
            "A  GIT_DIR=<wt>/.git  restore(None, ['hooks/pre-commit'], source=HEAD)",
            controldir,
            lambda: porcelain.restore(None, [b"hooks/pre-commit"], source=b"HEAD"),
            problems,
        )
        attempt(
            "A  GIT_DIR=<wt>/.git  checkout(None, HEAD, paths=['hooks/pre-commit'])",
            controldir,
            lambda: porcelain.checkout(None, b"HEAD", paths=[b"hooks/pre-commit"]),
            problems,
        )
        os.chdir(saved_cwd)
        os.environ.pop("GIT_DIR", None)

        # ---- Part B: bare repository ----------------------------------------
        bare = os.path.join(base, "site.git")
        os.mkdir(bare)
        rb = Repo.init_bare(bare)
        tree_id, cb = fill(rb)
        attempt(
            "B  bare  checkout(paths=['hooks/pre-commit'])",
            bare,
            lambda: porcelain.checkout(rb, cb, paths=[b"hooks/pre-commit"]),
            problems,
        )
        attempt(
            "B  bare  restore(['hooks/pre-commit'], source=commit)",
            bare,
            lambda: porcelain.restore(rb, [b"hooks/pre-commit"], source=cb),
            problems,
        )
        attempt(
            "B  bare  reset_file('hooks/pre-commit')",
            bare,
            lambda: porcelain.reset_file(rb, "hooks/pre-commit", cb),
            problems,
        )
        attempt(
            "B  bare  get_worktree().reset_index(tree)",
            bare,
            lambda: rb.get_worktree().reset_index(tree_id),
            problems,
        )
        # For comparison: these siblings refuse before writing anything.
        attempt("B  bare  reset --hard", bare, lambda: porcelain.reset(rb, "hard", cb), problems)
        attempt("B  bare  checkout <commit>", bare, lambda: porcelain.checkout(rb, cb, force=True), problems)
        rb.close()
    finally:
        os.chdir(saved_cwd)
        for k, v in saved_env.items():
            if v is None:
                os.environ.pop(k, None)
            else:
                os.environ[k] = v
        shutil.rmtree(base, ignore_errors=True)

    if problems:
        print("VIOLATION: tree entries were materialised inside the control directory")
        for p in problems:
            print("  " + p)
        return 1
    print("ok: the control directory was left alone by every operation")
    return 0


if __name__ == "__main__":
    sys.exit(main())
