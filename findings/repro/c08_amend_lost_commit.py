import os, tempfile, sys
sys.path.insert(0,'/repo')
from dulwich.repo import Repo
from dulwich.objects import Tree
from dulwich import porcelain
from dulwich.refs import DiskRefsContainer
d = tempfile.mkdtemp(dir=os.environ.get('TMPDIR','/tmp'))
r = Repo.init(d)
tr = Tree(); r.object_store.add_object(tr)
kw = dict(committer=b"a <a@b>", author=b"a <a@b>", commit_timestamp=1, commit_timezone=0, tree=tr.id)
A = r.get_worktree().commit(message=b"A", **kw)
B0 = r.get_worktree().commit(message=b"B0", **kw)
r2 = Repo(d)
orig = DiskRefsContainer.__getitem__
state = {"armed": False, "C": None}
def patched(self, name):
    # the SECOND kind of read in porcelain.commit(amend): r.refs[HEAD] just before the CAS.
    if state["armed"] and name == b"HEAD" and state["C"] is None and self is not r2.refs:
        import traceback
        st = "".join(traceback.format_stack(limit=4))
        if "porcelain" in st and "old_head = r.refs[HEADREF]" in st:
            state["C"] = r2.get_worktree().commit(message=b"C (concurrent)", **kw)
    return orig(self, name)
DiskRefsContainer.__getitem__ = patched
state["armed"] = True
new = porcelain.commit(d, message=b"B1 (amended)", amend=True, author=b"a <a@b>", committer=b"a <a@b>")
DiskRefsContainer.__getitem__ = orig
rr = Repo(d)
hist = [rr[e.commit.id].message for e in rr.get_walker()]
print("concurrent commit C landed:", state["C"] is not None)
print("history after amend:", hist, "-> C lost" if b"C (concurrent)" not in hist else "")
