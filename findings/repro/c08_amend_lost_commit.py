import os, tempfile, sys
sys.path.insert(0,'/repo')
from dulwich.repo import Repo
from dulwich.objects import Tree
from dulwich import porcelain
from dulwich.refs import DiskRefsContainer
d = tempfile.mkdtemp(dir=os.environ.get('TMPDIR','/tmp'))
r = Repo.init(d)
tr = Tree(); r.object_store.add_object(tr)
kw = dict(committer=b"a <a@b>", author=b"a <a@b>", commit_timestamp=1, commit_timezone=0, tree=tr.id)
A = r.get_worktree().commit(message=b"A", **kw)
B0 = r.get_worktree().commit(message=b"B0", **kw)
r2 = Repo(d)
# the other actor commits C after the amended commit object was built and before HEAD is swapped
# (interposed on the reflog-message helper that porcelain.commit calls in between)
state = {"C": None}
orig = porcelain._get_reflog_message
def patched(default_message, env=None):
    if state["C"] is None:
        state["C"] = r2.get_worktree().commit(message=b"C (concurrent)", **kw)
    return orig(default_message, env=env)
porcelain._get_reflog_message = patched
try:
    new = porcelain.commit(d, message=b"B1 (amended)", amend=True, author=b"a <a@b>", committer=b"a <a@b>")
    print("amend reported success")
except Exception as e:
    print("amend failed with", type(e).__name__, e)
porcelain._get_reflog_message = orig
rr = Repo(d)
hist = [rr[e.commit.id].message for e in rr.get_walker()]
print("concurrent commit C landed:", state["C"] is not None)
print("history after amend:", hist, "-> C lost" if b"C (concurrent)" not in hist else "")
