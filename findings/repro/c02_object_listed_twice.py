#!/usr/bin/env python
"""C02 / h2: an object that is listed twice is written twice into the pack but
indexed once - the pack/index pair no longer agree, dulwich cannot open what
it has just written, and C git rejects it.

The pack writer (PackChunkGenerator) counts and writes every record it is
given, but remembers what it wrote in a dict keyed by object name
(`self.entries[unpacked.sha()] = (offset, crc32)`).  A name that occurs twice
therefore yields a pack header that says N objects, N records in the pack and
N-1 entries in the index that write_pack() builds from that dict.

Part A  write_pack()/write_pack_objects() (the file level API)
Part B  DiskObjectStore.add_objects() (re-indexes the pack, so the duplicate
        gets two index entries; dulwich is content, C git is not)

C git's own writer (git pack-objects) stores an object that is named twice
once.

Exit status 1 = the violation happened, 0 = the library behaved.
"""

import glob
import os
import shutil
import subprocess
import sys
import tempfile

import dulwich

ROOT = os.environ.get("DULWICH_ROOT", "/repo")
assert dulwich.__file__.startswith(ROOT), dulwich.__file__

from dulwich.object_format import SHA1
from dulwich.objects import Blob, Commit, Tree
from dulwich.pack import Pack, write_pack
from dulwich.repo import Repo


def main() -> int:
    top = tempfile.mkdtemp(prefix="c02-h2-")
    env = dict(os.environ, HOME=top, GIT_CONFIG_NOSYSTEM="1",
               GIT_CEILING_DIRECTORIES=os.path.dirname(top))
    for k in ("GIT_DIR", "GIT_WORK_TREE", "GIT_INDEX_FILE"):
        env.pop(k, None)

    def git(cwd, *args):
        return subprocess.run(["git", *args], cwd=cwd, env=env,
                              capture_output=True, text=True)

    failed = False
    try:
        a = Blob.from_string(b"the same content\n" * 20)
        b = Blob.from_string(b"something else\n")
        want = {o.id: (o.type_num, o.as_raw_string()) for o in (a, b)}

        # ---------------------------------------------------------- part A
        for deltify in (False, True):
            print("--- A: write_pack([a, b, a], deltify=%s)" % deltify)
            base = os.path.join(top, "pack-A%d" % deltify)
            try:
                write_pack(base, [(a, None), (b, None), (a, None)], SHA1,
                           deltify=deltify)
            except Exception as e:  # a clean refusal would be acceptable
                left = glob.glob(base + ".*")
                print("write_pack refused the input: %r; files left: %s" % (e, left))
                if left:
                    failed = True
                continue
            try:
                with Pack(base, object_format=SHA1) as p:
                    n_idx, n_data = len(p.index), len(p.data)
                    print("index entries: %d, objects in pack data: %d" % (n_idx, n_data))
                    got_ra = {k: p.get_raw(k) for k in want}
                    got_seq = {o.id: (o.type_num, o.as_raw_string())
                               for o in p.iterobjects()}
                    p.check()
                if got_ra != want or got_seq != want:
                    failed = True
                    print("VIOLATION: contents read back differ")
            except Exception as e:
                failed = True
                print("VIOLATION: dulwich cannot read the pack it wrote: %s: %s"
                      % (type(e).__name__, e))
            r = git(top, "verify-pack", base + ".idx")
            print("git verify-pack -> exit %d %s" % (r.returncode, r.stderr.strip()))
            if r.returncode != 0:
                failed = True
                print("VIOLATION: C git rejects the pack/index written by dulwich")
            r = git(top, "index-pack", "--strict", "-o", base + ".git.idx", base + ".pack")
            print("git index-pack --strict -> exit %d %s" % (r.returncode, r.stderr.strip()))
            if r.returncode != 0:
                failed = True
                print("VIOLATION: C git rejects the pack written by dulwich")

        # ---------------------------------------------------------- part B
        print("--- B: DiskObjectStore.add_objects() with one blob at two paths")
        rd = os.path.join(top, "repo")
        os.mkdir(rd)
        repo = Repo.init(rd)
        try:
            t = Tree()
            t.add(b"x", 0o100644, a.id)
            t.add(b"y", 0o100644, a.id)
            c = Commit()
            c.tree = t.id
            c.author = c.committer = b"a <a@example.com>"
            c.author_time = c.commit_time = 0
            c.author_timezone = c.commit_timezone = 0
            c.message = b"m"
            try:
                pack = repo.object_store.add_objects(
                    [(a, "x"), (a, "y"), (t, ""), (c, None)])
            except Exception as e:
                print("add_objects refused the input: %r" % (e,))
                pack = None
            if pack is not None:
                names = [n for n, _o, _c in pack.index.iterentries()]
                print("objects in pack: %d, distinct names: %d"
                      % (len(pack.data), len(set(names))))
                idx_path = pack._basename + ".idx"
        finally:
            repo.close()
        if pack is not None:
            r = git(rd, "verify-pack", idx_path)
            print("git verify-pack -> exit %d %s" % (r.returncode, r.stderr.strip()))
            if r.returncode != 0:
                failed = True
                print("VIOLATION: C git rejects the pack written by dulwich")

        if failed:
            return 1
        print("OK")
        return 0
    finally:
        shutil.rmtree(top, ignore_errors=True)


if __name__ == "__main__":
    sys.exit(main())
