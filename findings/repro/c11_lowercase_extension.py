#!/usr/bin/env python
"""C11 / h1: dulwich cannot read the sparse index that `git sparse-checkout` writes.

A sparse index carries the (mandatory, lower-case) extension "sdir".  The
extension loop of read_index_dict_with_version only accepts signatures made of
four upper-case letters; for anything else it "seeks back" -- after the four
bytes were already fed into the running SHA-1 -- and stops, so the following
checksum verification compares against the wrong 20 bytes and the whole index is
rejected with ChecksumMismatch although it is undamaged.

Exit status: 1 = violation observed, 0 = library behaves as the property says.
"""

import os
import shutil
import struct
import subprocess
import sys
import tempfile
from hashlib import sha1

sys.path.insert(0, "/repo")
import dulwich  # noqa: E402

pass  # run against the installed dulwich (/repo)
from dulwich.index import Index  # noqa: E402

ENV = dict(
    os.environ,
    GIT_CONFIG_GLOBAL="/dev/null",
    GIT_CONFIG_SYSTEM="/dev/null",
    GIT_CONFIG_NOSYSTEM="1",
    GIT_AUTHOR_NAME="a",
    GIT_AUTHOR_EMAIL="a@example.invalid",
    GIT_COMMITTER_NAME="a",
    GIT_COMMITTER_EMAIL="a@example.invalid",
)

problems = []


def git(cwd, *args, check=True):
    return subprocess.run(
        ["git", *args], cwd=cwd, env=ENV, check=check, capture_output=True
    )


def git_made_sparse_index(d):
    """Let C git produce a sparse index; return list of (mode, sha, stage, name)."""
    git(d, "init", "-q")
    for p in ["a/x", "a/y", "b/x", "b/c/z", "top"]:
        full = os.path.join(d, p)
        os.makedirs(os.path.dirname(full), exist_ok=True)
        with open(full, "w") as f:
            f.write(p)
    git(d, "add", ".")
    git(d, "commit", "-qm", "initial")
    r = git(d, "sparse-checkout", "init", "--cone", "--sparse-index", check=False)
    if r.returncode:
        return None
    git(d, "sparse-checkout", "set", "a")
    with open(os.path.join(d, ".git", "index"), "rb") as f:
        raw = f.read()
    if b"sdir\x00\x00\x00\x00" not in raw:
        return None  # this git did not write a sparse index
    out = git(d, "ls-files", "--stage", "--sparse", "-z").stdout
    res = []
    for rec in out.split(b"\0"):
        if not rec:
            continue
        meta, name = rec.split(b"\t", 1)
        mode, sha, stage = meta.split(b" ")
        res.append((int(mode, 8), sha, int(stage), name))
    return res


def hand_made_sparse_index(path):
    """The same kind of file written byte by byte after gitformat-index(5)."""
    entries = [
        (b"a/x", 0o100644, b"\x11" * 20, 0, 0),
        (b"b/", 0o040000, b"\x22" * 20, 0x4000, 0x4000),  # sparse dir, skip-worktree
        (b"top", 0o100644, b"\x33" * 20, 0, 0),
    ]
    body = b"DIRC" + struct.pack(">LL", 3, len(entries))
    for name, mode, sha, fl, ext in entries:
        e = struct.pack(">LLLLLLLLLL", 0, 0, 0, 0, 0, 0, mode, 0, 0, 0) + sha
        e += struct.pack(">H", fl | len(name))
        if fl & 0x4000:
            e += struct.pack(">H", ext)
        e += name
        e += b"\0" * (((len(e) + 8) & ~7) - len(e))
        body += e
    body += b"sdir" + struct.pack(">L", 0)
    with open(path, "wb") as f:
        f.write(body + sha1(body).digest())
    return [(m, s.hex().encode(), 0, n) for n, m, s, _f, _e in entries]


def check(label, index_path, expected):
    try:
        idx = Index(index_path)
    except BaseException as e:  # noqa: BLE001
        problems.append(
            f"{label}: Index({os.path.basename(index_path)!r}) raised "
            f"{type(e).__name__}: {e}"
        )
        return
    got = sorted((e.mode, e.sha, 0, name) for name, e in idx.items())
    if got != sorted(expected):
        problems.append(f"{label}: entries differ\n  dulwich: {got}\n  git:     {expected}")
    if not idx.is_sparse():
        problems.append(f"{label}: index read, but is_sparse() is False (sdir lost)")


def main():
    tmp = tempfile.mkdtemp(prefix="c11-h1-")
    try:
        repo = os.path.join(tmp, "repo")
        os.mkdir(repo)
        expected = git_made_sparse_index(repo)
        if expected is None:
            print("note: this C git cannot write a sparse index; using the hand-made file only")
        else:
            fsck = git(repo, "fsck", check=False)
            print("C git lists (ls-files --stage --sparse):")
            for m, s, st, n in expected:
                print(f"   {m:06o} {s.decode()} {st}\t{n.decode()}")
            print("git fsck on that repository: rc =", fsck.returncode)
            check("index written by `git sparse-checkout set a` (cone, sparse index)",
                  os.path.join(repo, ".git", "index"), expected)

        hand = os.path.join(tmp, "hand-index")
        check("hand-made v3 index with an 'sdir' extension", hand, hand_made_sparse_index(hand))
    finally:
        shutil.rmtree(tmp, ignore_errors=True)

    if problems:
        print("VIOLATION (C11: 'dulwich reads every index C git writes' -- sparse-checkout):")
        for p in problems:
            print(" -", p)
        return 1
    print("ok: the sparse index was read and lists the same entries as C git")
    return 0


if __name__ == "__main__":
    sys.exit(main())
