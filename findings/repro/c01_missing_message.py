#!/usr/bin/env python
"""C01 / h3: an object without a message gains a blank line when re-serialised.

git accepts (and `git mktag` produces) tags and commits whose header block is
not followed by the blank separator line: "missing message".  dulwich parses
such an object into message=None, but _format_message() unconditionally emits
the separator "\\n", so

  * parse + change ONE field + serialise changes another byte (a "\\n" is
    appended) -- the rewritten object is not the one C git gives for the same
    edit;
  * build from field values with message=None + parse returns message=b"":
    the value does not survive the round trip, and None / b"" -- two different
    git objects -- collapse into the same bytes and name.

Exit status: 1 when the violation is observed, 0 otherwise.
"""

import shutil
import subprocess
import sys
import tempfile

import dulwich

pass  # run against the installed dulwich (/repo)

from dulwich.objects import Commit, Tag

TREE = b"4b825dc642cb6eb9a060e54bf8d69288fbee4904"
COMMIT = b"0cb69a72229fbdb9a550be3aa8417bfc16961ba6"
problems = []

TAG_NO_MSG = (
    b"object " + COMMIT + b"\n"
    b"type commit\n"
    b"tag v1\n"
    b"tagger T Agger <t@example.com> 1700000000 +0100\n"
)
COMMIT_NO_MSG = (
    b"tree " + TREE + b"\n"
    b"author A U Thor <a@example.com> 1700000000 +0100\n"
    b"committer C O Mitter <c@example.com> 1700000000 +0100\n"
)


def git_accepts() -> None:
    """Informational: show that C git produces/accepts the blank-line-less form."""
    git = shutil.which("git")
    if not git:
        return
    tmp = tempfile.mkdtemp(prefix="c01h3-")
    try:
        subprocess.run([git, "init", "-q", tmp], check=True)

        def run(*a: str, data: bytes) -> subprocess.CompletedProcess:
            return subprocess.run([git, "-C", tmp, *a], input=data, capture_output=True)

        c = run("hash-object", "-t", "commit", "-w", "--stdin", data=COMMIT_NO_MSG)
        cid = c.stdout.strip()
        tag = TAG_NO_MSG.replace(COMMIT, cid)
        t = run("mktag", data=tag)
        f = subprocess.run([git, "-C", tmp, "fsck", "--strict"], capture_output=True)
        print(
            f"(C git: hash-object commit rc={c.returncode}, mktag rc={t.returncode} "
            f"-> {t.stdout.strip().decode()}, fsck --strict rc={f.returncode}; "
            f"dulwich names the same tag bytes {Tag.from_string(tag).id.decode()})"
        )
    finally:
        shutil.rmtree(tmp, ignore_errors=True)


def reserialise_with_one_field_changed() -> None:
    t = Tag.from_string(TAG_NO_MSG)
    assert t.as_raw_string() == TAG_NO_MSG and t.message is None
    t.name = b"v2"
    want = TAG_NO_MSG.replace(b"tag v1\n", b"tag v2\n")
    got = t.as_raw_string()
    if got != want:
        problems.append(
            "tag without message, `t.name = b'v2'`: other bytes changed\n"
            f"      got  {got!r}\n      want {want!r}"
        )

    c = Commit.from_string(COMMIT_NO_MSG)
    assert c.as_raw_string() == COMMIT_NO_MSG and c.message is None
    c.author = b"Somebody Else <s@example.com>"
    want = COMMIT_NO_MSG.replace(b"A U Thor <a@example.com>", b"Somebody Else <s@example.com>")
    got = c.as_raw_string()
    if got != want:
        problems.append(
            "commit without message, `c.author = ...`: other bytes changed\n"
            f"      got  {got!r}\n      want {want!r}"
        )

    # re-assigning the value the field already has must be the identity
    t = Tag.from_string(TAG_NO_MSG)
    before = t.id
    t.name = t.name
    if t.id != before:
        problems.append(
            f"tag without message: `t.name = t.name` renames the object {before!r} -> {t.id!r}"
        )


def build_then_parse() -> None:
    def tag(message: bytes | None) -> Tag:
        t = Tag()
        t.object = (Commit, COMMIT)
        t.name = b"v1"
        t.tagger = b"T Agger <t@example.com>"
        t.tag_time = 1700000000
        t.tag_timezone = 3600
        t.message = message
        return t

    def commit(message: bytes | None) -> Commit:
        c = Commit()
        c.tree = TREE
        c.author = b"A U Thor <a@example.com>"
        c.committer = b"C O Mitter <c@example.com>"
        c.author_time = c.commit_time = 1700000000
        c.author_timezone = c.commit_timezone = 3600
        c.message = message
        return c

    for kind, make, cls in (("tag", tag, Tag), ("commit", commit, Commit)):
        built = make(None)
        parsed = cls.from_string(built.as_raw_string())
        if parsed.message != built.message:
            problems.append(
                f"{kind} built with message=None parses back with message={parsed.message!r}"
            )
        if make(None).id == make(b"").id:
            problems.append(
                f"{kind}: message=None and message=b'' -- which parse from two different "
                f"git objects -- serialise to the same bytes/name {make(None).id!r}"
            )


def main() -> int:
    git_accepts()
    reserialise_with_one_field_changed()
    build_then_parse()
    if problems:
        print("VIOLATION of C01 (lossless re-serialisation, missing message):")
        for p in problems:
            print("  -", p)
        return 1
    print("ok: objects without a message round-trip")
    return 0


if __name__ == "__main__":
    sys.exit(main())
