"""C14: a commit graph that is not closed under the parent relation truncates ancestry.

write_commit_graph(refs, reachable=False) (a documented option) generated entries for the ref targets only.  A parent
that is not in the graph is encoded as GRAPH_PARENT_MISSING, which the reader (dulwich's and git's) takes for "no
parent": with the graph present _collect_ancestors(tip) found 1 commit instead of 3.  Exit 1 when the answers differ."""
import os, sys, tempfile, shutil
from dulwich.repo import Repo
from dulwich.objects import Tree, Commit
from dulwich.object_store import _collect_ancestors
base = tempfile.mkdtemp(); path = os.path.join(base, "r")
r = Repo.init(path, mkdir=True)
t = Tree(); r.object_store.add_object(t)
def commit(n, parents):
    c = Commit(); c.tree = t.id; c.parents = parents; c.author = c.committer = b"a <a@b>"
    c.author_time = c.commit_time = n; c.author_timezone = c.commit_timezone = 0; c.message = b"m%d" % n
    r.object_store.add_object(c); return c.id
c1 = commit(1, []); c2 = commit(2, [c1]); c3 = commit(3, [c2])
r.refs[b"refs/heads/master"] = c3
before, _ = _collect_ancestors(r.object_store, [c3])
r.object_store.write_commit_graph([c3], reachable=False)
r.close()
r = Repo(path)
after, _ = _collect_ancestors(r.object_store, [c3])
print("ancestors of the tip without commit-graph:", len(before), " with the commit-graph written for the tip only:", len(after))
import subprocess
print("git rev-list --count:", subprocess.run(["git", "-c", "core.commitGraph=true", "rev-list", "--count", "master"], cwd=path, capture_output=True, text=True).stdout.strip())
rc = 1 if before != after else 0
r.close(); shutil.rmtree(base); sys.exit(rc)
