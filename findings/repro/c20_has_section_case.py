#!/usr/bin/env python
"""C20 / h3: Config.has_section() compares section names case-sensitively.

git's case rules: section names and variable names are case-insensitive,
subsection names are case-sensitive.  Every other accessor of dulwich's
ConfigFile (get, get_multivar, items, __getitem__, set, add, remove) follows
these rules through CaseInsensitiveOrderedMultiDict / lower_key(), but
has_section() does a plain `name in self.sections()`, an exact comparison
against the spelling that happens to be in the file.  For a file in which
git wrote `[Remote "origin"]` (git keeps the spelling the user typed),
has_section((b"remote", b"origin")) is False although
get((b"remote", b"origin"), b"url") returns the URL and
`git config --get remote.origin.url` finds it.

Exit status: 1 when the violation is observed, 0 otherwise.
"""

import io
import os
import shutil
import subprocess
import sys
import tempfile

import dulwich

pass  # run against the installed dulwich (/repo)
from dulwich import porcelain
from dulwich.config import ConfigFile
from dulwich.repo import Repo

URL = b"https://example.com/a.git"
URL2 = b"https://example.com/other.git"


def main() -> int:
    td = tempfile.mkdtemp(prefix="c20h3-")
    env = dict(os.environ, HOME=td, GIT_CONFIG_NOSYSTEM="1")
    problems = []
    try:
        # ---- A. a file git wrote -------------------------------------------
        path = os.path.join(td, "gitwritten")
        subprocess.run(
            [b"git", b"config", b"--file", path.encode(), b"Remote.origin.url", URL],
            check=True, env=env,
        )
        with open(path, "rb") as f:
            raw = f.read()
        # reference: for git the section is found under any spelling
        for key in (b"remote.origin.url", b"REMOTE.origin.URL"):
            got = subprocess.run(
                [b"git", b"config", b"--file", path.encode(), b"--get", key],
                env=env, capture_output=True,
            ).stdout.strip()
            assert got == URL, (key, got)
        # ... and the subsection is case-sensitive
        assert subprocess.run(
            [b"git", b"config", b"--file", path.encode(), b"--get", b"remote.Origin.url"],
            env=env, capture_output=True,
        ).returncode == 1

        cf = ConfigFile.from_path(path)
        section = (b"remote", b"origin")
        assert cf.get(section, b"url") == URL  # the value is there ...
        assert list(cf.items(section)) == [(b"url", URL)]
        assert list(cf[section].items()) == [(b"url", URL)]
        assert not cf.has_section((b"remote", b"Origin"))  # subsection: sensitive, fine
        if not cf.has_section(section):  # ... but the section "does not exist"
            problems.append(
                "file written by git: %r\n"
                "      get((b'remote', b'origin'), b'url') -> %r, cf[(b'remote', b'origin')] works,\n"
                "      but has_section((b'remote', b'origin')) -> False"
                % (raw, cf.get(section, b"url"))
            )

        # ---- B. dulwich's own write -> read --------------------------------
        c = ConfigFile()
        c.set((b"core",), b"bare", b"false")
        c.set((b"branch", b"Main"), b"remote", b"origin")
        buf = io.BytesIO()
        c.write_to_file(buf)
        r = ConfigFile.from_file(io.BytesIO(buf.getvalue()))
        for asked in ((b"Core",), (b"CORE",), (b"Branch", b"Main")):
            assert r.get(asked, b"bare" if len(asked) == 1 else b"remote")
            if not r.has_section(asked):
                problems.append(
                    "round trip of %r: get(%r, ...) finds the value but has_section(%r) is False"
                    % (buf.getvalue(), asked, asked)
                )
        assert not r.has_section((b"branch", b"main"))  # subsection stays case-sensitive

        # ---- C. what it does to a caller (porcelain.remote_add) -------------
        repo_path = os.path.join(td, "repo")
        Repo.init(repo_path, mkdir=True).close()
        cfg_path = os.path.join(repo_path, ".git", "config")
        subprocess.run(
            [b"git", b"config", b"--file", cfg_path.encode(), b"Remote.origin.url", URL],
            check=True, env=env,
        )
        try:
            porcelain.remote_add(repo_path, b"origin", URL2)
        except porcelain.RemoteExists:
            pass  # correct: the remote exists
        else:
            now = subprocess.run(
                [b"git", b"config", b"--file", cfg_path.encode(), b"--get-all", b"remote.origin.url"],
                env=env, capture_output=True,
            ).stdout.split()
            problems.append(
                "porcelain.remote_add(repo, b'origin', ...) did not raise RemoteExists for the "
                "existing [Remote \"origin\"]; remote.origin.url was %r and is now %r"
                % ([URL], now)
            )
    finally:
        shutil.rmtree(td, ignore_errors=True)

    if problems:
        print("VIOLATION: has_section() does not follow git's case rules for section names")
        for p in problems:
            print("  - " + p)
        return 1
    print("ok: has_section() is case-insensitive in the section name, case-sensitive in the subsection")
    return 0


if __name__ == "__main__":
    sys.exit(main())
