#!/usr/bin/env python
"""C16 / h2: file-versus-directory name collisions are NOT refused by the files backend
once the other ref lives in packed-refs only.

    refs[b"refs/heads/a/b"] = A ; refs.pack_refs(all=True)
    refs.set_if_equals(b"refs/heads/a", None, B)        -> True   (both refs now exist)

    refs[b"refs/heads/a"] = A ; refs.pack_refs(all=True)
    refs.add_if_new(b"refs/heads/a/b", B)               -> True
    refs.set_symbolic_ref(b"refs/heads/a/b", b"refs/heads/m")  -> accepted

The same calls WITHOUT the pack_refs() step are refused, and C git refuses them in both
states ("'refs/heads/a/b' exists; cannot create 'refs/heads/a'").

Exit status 1 = at least one collision was accepted, 0 = all refused.
"""

import os
import shutil
import subprocess
import sys
import tempfile

import dulwich

assert os.path.dirname(dulwich.__file__) == os.path.join(os.environ.get("VERIF_REPO", "/repo"), "dulwich"), dulwich.__file__

from dulwich.refs import DiskRefsContainer

ENV = dict(
    os.environ,
    GIT_AUTHOR_NAME="a",
    GIT_AUTHOR_EMAIL="a@b",
    GIT_COMMITTER_NAME="a",
    GIT_COMMITTER_EMAIL="a@b",
    GIT_CONFIG_NOSYSTEM="1",
    GIT_AUTHOR_DATE="1700000000 +0000",
    GIT_COMMITTER_DATE="1700000000 +0000",
)


def git(d, *args):
    return subprocess.run(
        ["git", "-C", d, *args], capture_output=True, env=ENV, check=False
    )


def make_repo():
    d = tempfile.mkdtemp(prefix="c16h2-")
    subprocess.run(["git", "init", "-q", "--bare", d], check=True, env=ENV)
    tree = git(d, "hash-object", "-t", "tree", "-w", "/dev/null").stdout.strip().decode()
    a = git(d, "commit-tree", tree, "-m", "one").stdout.strip()
    b = git(d, "commit-tree", tree, "-p", a.decode(), "-m", "two").stdout.strip()
    assert len(a) == 40 and len(b) == 40
    return d, a, b


def git_list(d):
    out = git(d, "for-each-ref", "--format=%(refname)").stdout
    return sorted(out.split())


# (label, existing ref, colliding new ref, how to write the new ref, equivalent git command)
def cases(A, B):
    return [
        (
            "set_if_equals(refs/heads/a) while refs/heads/a/b exists",
            b"refs/heads/a/b",
            b"refs/heads/a",
            lambda r: r.set_if_equals(b"refs/heads/a", None, B),
            ["update-ref", "refs/heads/a", B.decode()],
        ),
        (
            "add_if_new(refs/heads/a) while refs/heads/a/b exists",
            b"refs/heads/a/b",
            b"refs/heads/a",
            lambda r: r.add_if_new(b"refs/heads/a", B),
            ["update-ref", "refs/heads/a", B.decode(), "0" * 40],
        ),
        (
            "set_symbolic_ref(refs/heads/a) while refs/heads/a/b exists",
            b"refs/heads/a/b",
            b"refs/heads/a",
            lambda r: r.set_symbolic_ref(b"refs/heads/a", b"refs/heads/m"),
            ["symbolic-ref", "refs/heads/a", "refs/heads/m"],
        ),
        (
            "add_if_new(refs/heads/a/b) while refs/heads/a exists",
            b"refs/heads/a",
            b"refs/heads/a/b",
            lambda r: r.add_if_new(b"refs/heads/a/b", B),
            ["update-ref", "refs/heads/a/b", B.decode(), "0" * 40],
        ),
        (
            "set_symbolic_ref(refs/heads/a/b) while refs/heads/a exists",
            b"refs/heads/a",
            b"refs/heads/a/b",
            lambda r: r.set_symbolic_ref(b"refs/heads/a/b", b"refs/heads/m"),
            ["symbolic-ref", "refs/heads/a/b", "refs/heads/m"],
        ),
        (
            # control: this sibling already probes packed-refs for ancestors
            "set_if_equals(refs/heads/a/b) while refs/heads/a exists",
            b"refs/heads/a",
            b"refs/heads/a/b",
            lambda r: r.set_if_equals(b"refs/heads/a/b", None, B),
            ["update-ref", "refs/heads/a/b", B.decode()],
        ),
    ]


def attempt(d, A, existing, new, write, packed):
    """Prepare `existing` (loose or packed), try to create `new`; report what happened."""
    refs = DiskRefsContainer(d)
    refs[b"refs/heads/m"] = A
    refs[existing] = A
    if packed:
        refs.pack_refs(all=True)
        assert refs.get_packed_refs().get(existing) == A
        assert refs.read_loose_ref(existing) is None
    try:
        ret = write(refs)
        outcome = f"returned {ret!r}"
    except Exception as e:
        ret = e
        outcome = f"raised {type(e).__name__}"
    keys = DiskRefsContainer(d).allkeys()
    coexist = existing in keys and new in keys
    return outcome, coexist


def git_attempt(existing, A, gitcmd, packed):
    d, A2, B2 = make_repo()  # same deterministic object ids as the caller's repo
    try:
        git(d, "update-ref", "refs/heads/m", A.decode())
        git(d, "update-ref", existing.decode(), A.decode())
        if packed:
            git(d, "pack-refs", "--all")
        r = git(d, *gitcmd)
        return r.returncode, r.stderr.decode().strip()
    finally:
        shutil.rmtree(d, ignore_errors=True)


def main():
    violations = []
    d0, A, B = make_repo()
    shutil.rmtree(d0, ignore_errors=True)
    for label, existing, new, write, gitcmd in cases(A, B):
        row = {}
        for packed in (False, True):
            d, _, _ = make_repo()
            try:
                outcome, coexist = attempt(d, A, existing, new, write, packed)
                listing = git_list(d)
            finally:
                shutil.rmtree(d, ignore_errors=True)
            rc, err = git_attempt(existing, A, gitcmd, packed)
            state = "packed" if packed else "loose "
            print(f"{label}  [{existing.decode()} is {state}]")
            print(f"    dulwich: {outcome}; both names exist afterwards: {coexist}")
            if coexist:
                print(f"    C git now lists: {[x.decode() for x in listing]}")
            print(f"    C git, same request: exit {rc} {err[:110]}")
            row[packed] = coexist
            if coexist:
                violations.append(f"{label} [{state.strip()}]: accepted ({outcome})")
            if rc == 0:
                violations.append(f"unexpected: C git accepted {gitcmd}")
        if row[False] != row[True]:
            print("    => pack_refs() changed the observable outcome of this operation")
        print()

    if violations:
        print("VIOLATION: colliding names were not refused:")
        for v in violations:
            print("  -", v)
        return 1
    print("OK: every file/directory collision was refused")
    return 0


if __name__ == "__main__":
    sys.exit(main())
