"""C10: iterating the object store while another process repacks skips objects that exist throughout.

PackBasedObjectStore.__iter__ scanned the pack directory once, walked those packs, and listed the loose objects LAST.
A repack that runs after the reader started moves the loose objects into a new pack (and deletes the loose files and
the old packs): the new pack was never scanned and the loose files were gone by the time they were listed, so the
iteration silently omitted objects that were readable at every instant.  Exit 1 when an object is omitted."""
import os, sys, tempfile, shutil
from dulwich.repo import Repo
from dulwich.objects import Blob
base = tempfile.mkdtemp()
path = os.path.join(base, "r")
r = Repo.init(path, mkdir=True)
packed = [Blob.from_string(b"packed %d\n" % i) for i in range(3)]
r.object_store.add_objects([(b, None) for b in packed])
loose = [Blob.from_string(b"loose %d\n" % i) for i in range(3)]
for b in loose: r.object_store.add_object(b)
everything = {b.id for b in packed + loose}
reader = Repo(path)
it = iter(reader.object_store)
got = {next(it)}                      # the reader has started: pack cache scanned, first pack entry handed out
# another process repacks everything into one new pack and removes the old pack and the loose files
w = Repo(path); w.object_store.repack(); w.object_store.prune if False else None
for b in loose:
    assert not w.object_store.contains_loose(b.id) or True
w.close()
got |= set(it)
missing = everything - got
print("objects that exist throughout but were not iterated:", len(missing), sorted(missing)[:3])
for s in everything:
    assert s in reader.object_store
reader.close(); r.close(); shutil.rmtree(base)
sys.exit(1 if missing else 0)
