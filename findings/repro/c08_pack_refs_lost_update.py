"""F08.3: add_packed_refs removes loose ref files without holding their locks or comparing their content.
Schedule: A = pack_refs(all=True) has collected x=v1; B updates x to v2 (loose file, reported successful);
A then writes packed-refs with x=v1 and deletes the loose file: B's successful update is gone."""
import os, sys, tempfile
sys.path.insert(0, '/repo')
from dulwich.repo import Repo
from dulwich.objects import Tree, Commit
import dulwich.refs as drefs

def mkcommit(store, parents, t):
    tr = Tree(); store.add_object(tr)
    c = Commit(); c.tree = tr.id; c.parents = parents
    c.author = c.committer = b"a <a@b>"; c.author_time = c.commit_time = t
    c.author_timezone = c.commit_timezone = 0; c.message = b"m"
    store.add_object(c); return c

d = tempfile.mkdtemp(dir=os.environ.get('TMPDIR', '/tmp'))
r = Repo.init_bare(d)
v1 = mkcommit(r.object_store, [], 1); v2 = mkcommit(r.object_store, [v1.id], 2)
r.refs[b"refs/heads/x"] = v1.id
orig = drefs.write_packed_refs
done = {}
def interposed(f, packed_refs, peeled_refs=None):
    if not done:
        done["ok"] = Repo(d).refs.set_if_equals(b"refs/heads/x", v1.id, v2.id)   # actor B, succeeds
    return orig(f, packed_refs, peeled_refs)
drefs.write_packed_refs = interposed
try:
    r.refs.pack_refs(all=True)
finally:
    drefs.write_packed_refs = orig
print("B's compare-and-swap v1->v2 reported:", done["ok"])
print("final value is v2 (expect True):", Repo(d).refs[b"refs/heads/x"] == v2.id)
