"""C10: gc prunes an unreachable object whose NEWEST copy is younger than the grace period.

An object stored twice (an old loose file and a pack written seconds ago, e.g. by a push that has not yet updated its
ref) had its age taken from the first copy found (the loose one): garbage_collect() with the default two-week grace
deleted the loose file and repacked without it, dropping the fresh pack as well.  Expected: the object survives, because
only objects older than the grace period may disappear and its newest copy is seconds old.
usage: c10_duplicate_copy_age.py [loose-old|pack-old]; exit 1 when the object is gone."""
import os, sys, tempfile, shutil, time
from dulwich.repo import Repo
from dulwich.objects import Blob, Tree, Commit
from dulwich.gc import garbage_collect
from dulwich.pack import write_pack_objects
base = tempfile.mkdtemp()
r = Repo.init(os.path.join(base, "r"), mkdir=True)
keep = Blob.from_string(b"keep\n"); r.object_store.add_object(keep)
t = Tree(); t.add(b"k", 0o100644, keep.id); r.object_store.add_object(t)
c = Commit(); c.tree = t.id; c.parents = []; c.author = c.committer = b"a <a@b>"; c.author_time = c.commit_time = 1
c.author_timezone = c.commit_timezone = 0; c.message = b"m"; r.object_store.add_object(c)
r.refs[b"refs/heads/master"] = c.id
x = Blob.from_string(b"in flight\n")
# variant from argv: which copy is old
mode = sys.argv[1] if len(sys.argv) > 1 else "loose-old"
old = time.time() - 30 * 86400
if mode == "loose-old":
    r.object_store.add_object(x)
    p = r.object_store._get_shafile_path(x.id); os.utime(p, (old, old))
    r.object_store.add_objects([(x, None)])       # a fresh pack holding x (e.g. a push that has not updated its ref yet)
else:
    r.object_store.add_objects([(x, None)])
    for pk in r.object_store.packs:
        os.utime(pk._data_path, (old, old)); os.utime(pk._idx_path, (old, old))
    r.object_store.add_object(x)                  # fresh loose copy? (add_object freshens / writes)
print("copies: loose", r.object_store.contains_loose(x.id), "packed", r.object_store.contains_packed(x.id))
print("mtime age (days):", (time.time() - r.object_store.get_object_mtime(x.id)) / 86400)
garbage_collect(r)   # default grace: two weeks
r2 = Repo(os.path.join(base, "r"))
print("x present after gc:", x.id in r2.object_store)
rc = 0 if x.id in r2.object_store else 1
r.close(); r2.close(); shutil.rmtree(base); sys.exit(rc)
