"""C17: sparse checkout writes through a DANGLING symlink left by an earlier checkout, creating a file inside .git.

checkout #1 materialises `notes -> .git/hooks/pre-commit` (target does not exist); a mixed reset makes `notes` a regular
file in the index; sparse_checkout then "materialises the missing file": os.path.exists() is False for a dangling link,
so apply_included_paths() open()s the path for writing and the link is followed.  Exit 1 when the hook was created."""
import os, tempfile, sys, shutil
from dulwich.repo import Repo
from dulwich.objects import Blob, Tree, Commit
from dulwich import porcelain
base = tempfile.mkdtemp()
wt = os.path.join(base, "wt")
r = Repo.init(wt, mkdir=True)
link = Blob.from_string(b".git/hooks/pre-commit"); evil = Blob.from_string(b"#!/bin/sh\necho pwned\n")
r.object_store.add_object(link); r.object_store.add_object(evil)
def commit(tree, parents, msg):
    c = Commit(); c.tree = tree.id; c.parents = parents
    c.author = c.committer = b"a <a@b>"; c.author_time = c.commit_time = 1
    c.author_timezone = c.commit_timezone = 0; c.message = msg
    r.object_store.add_object(c); return c
t0 = Tree(); t0.add(b"notes", 0o120000, link.id); r.object_store.add_object(t0)
c0 = commit(t0, [], b"base"); r.refs[b"refs/heads/master"] = c0.id
porcelain.reset(r, "hard", c0.id)
print("link:", os.readlink(os.path.join(wt, "notes")))
t1 = Tree(); t1.add(b"notes", 0o100755, evil.id); r.object_store.add_object(t1)
c1 = commit(t1, [c0.id], b"file")
porcelain.reset(r, "mixed", c1.id)
try:
    porcelain.sparse_checkout(r, patterns=["*"], force=True, cone=False)
except Exception as e:
    print("raised", type(e).__name__, e)
hook = os.path.join(wt, ".git", "hooks", "pre-commit")
print("hook exists:", os.path.exists(hook), open(hook,'rb').read() if os.path.exists(hook) else None)
bad = os.path.exists(hook)
r.close(); shutil.rmtree(base)
sys.exit(1 if bad else 0)
