#!/usr/bin/env python
"""C04 / h1 -- a pack that is going to be rejected is visible while it is being checked.

DiskObjectStore._complete_pack() renames the received pack to
objects/pack/pack-<sha>.pack and writes pack-<sha>.idx FIRST, and only THEN
inflates/parses every object ("post-install validation").  When that check
fails the two files are removed again -- but between the two steps the
rejected pack is a fully visible member of the object store: every other
reader of the repository (a second DiskObjectStore, another process, C git)
sees and can use its objects.

The second actor is forced to run at exactly that point by wrapping
PackInflater.for_pack_data, which _complete_pack calls to start the check.

exit 1 = violation observed (objects of a pack whose ingestion failed were
         visible / readable during the ingestion)
exit 0 = the rejected pack was never visible
"""

import hashlib
import io
import os
import shutil
import struct
import subprocess
import sys
import tempfile
import zlib

import dulwich

assert os.path.dirname(dulwich.__file__) == os.path.join(os.environ.get("VERIF_REPO", "/repo"), "dulwich"), dulwich.__file__

import dulwich.object_store as object_store_mod
from dulwich.object_store import DiskObjectStore
from dulwich.pack import PackInflater


def objhdr(type_num, size):
    b = (type_num << 4) | (size & 0x0F)
    size >>= 4
    out = []
    while size:
        out.append(b | 0x80)
        b = size & 0x7F
        size >>= 7
    out.append(b)
    return bytes(out)


def entry(type_num, data):
    return objhdr(type_num, len(data)) + zlib.compress(data)


def build_pack(entries):
    body = b"PACK" + struct.pack(">LL", 2, len(entries)) + b"".join(entries)
    return body + hashlib.sha1(body).digest()


def git_name(type_name, data):
    return hashlib.sha1(type_name + b" %d\0" % len(data) + data).hexdigest().encode()


# A well-formed blob and a tree whose only entry has a garbage mode.  The
# indexing pass only inflates and hashes, so it accepts both; the later
# validation pass parses the tree and rejects the pack.
BLOB = b"payload smuggled in by a pack that will be rejected\n"
BAD_TREE = b"9x9 name\0" + b"\x01" * 20
BLOB_ID = git_name(b"blob", BLOB)
PACK = build_pack([entry(3, BLOB), entry(2, BAD_TREE)])


def listing(path):
    out = []
    for d, _dirs, files in os.walk(path):
        for f in files:
            out.append(os.path.relpath(os.path.join(d, f), path))
    return sorted(out)


def run(mode, findings):
    tmp = tempfile.mkdtemp(prefix="c04-h1-")
    try:
        subprocess.check_call(["git", "init", "-q", "--bare", tmp])
        objdir = os.path.join(tmp, "objects")
        store = DiskObjectStore(objdir)
        before_listing = listing(objdir)
        seen = {}

        orig = PackInflater.for_pack_data.__func__

        def observing_for_pack_data(cls, pack_data, resolve_ext_ref=None):
            # --- the second actor, at the moment validation starts ---
            if "done" not in seen:
                seen["done"] = True
                seen["files"] = [f for f in listing(objdir) if f not in before_listing]
                other = DiskObjectStore(objdir)  # what another process would open
                try:
                    seen["contains"] = BLOB_ID in other
                    try:
                        seen["read"] = other[BLOB_ID].as_raw_string()
                    except Exception as exc:  # noqa: BLE001
                        seen["read"] = exc
                finally:
                    other.close()
                r = subprocess.run(
                    ["git", "-C", tmp, "cat-file", "blob", BLOB_ID.decode()],
                    capture_output=True,
                )
                seen["cgit"] = (r.returncode, r.stdout)
                # another thread of this process using the same store object
                # (e.g. a second request in a threaded smart-HTTP server)
                seen["same_instance"] = BLOB_ID in store
            return orig(cls, pack_data, resolve_ext_ref)

        PackInflater.for_pack_data = classmethod(observing_for_pack_data)
        error = None
        try:
            if mode == "add_thin_pack":
                bio = io.BytesIO(PACK)
                store.add_thin_pack(bio.read, None)
            else:
                f, commit, _abort = store.add_pack()
                f.write(PACK)
                commit()
        except Exception as exc:  # noqa: BLE001
            error = exc
        finally:
            PackInflater.for_pack_data = classmethod(orig)
        # the store object that ran the failed ingestion, afterwards
        try:
            same_after = store.contains_packed(BLOB_ID)
            same_after_read = store.get_raw(BLOB_ID)[1] if same_after else None
        except Exception as exc:  # noqa: BLE001
            same_after, same_after_read = False, exc
        store.close()

        after = DiskObjectStore(objdir)
        visible_after = BLOB_ID in after
        after.close()
        after_listing = listing(objdir)

        print(f"[{mode}] ingestion result: {type(error).__name__ if error else 'ACCEPTED'}: {error}")
        if error is None:
            print(f"[{mode}] unexpected: the malformed pack was accepted; nothing to show")
            return
        print(f"[{mode}] after the failure: blob visible={visible_after}, "
              f"new files={[f for f in after_listing if f not in before_listing]}")
        if not seen:
            print(f"[{mode}] validation hook never ran (pack rejected before install)")
            return
        print(f"[{mode}] while the pack was being validated:")
        print(f"          new files in objects/: {seen['files']}")
        print(f"          second DiskObjectStore: blob in store -> {seen['contains']}")
        print(f"          second DiskObjectStore: store[blob]    -> {seen['read']!r}")
        print(f"          C git cat-file blob: rc={seen['cgit'][0]} out={seen['cgit'][1]!r}")
        print(f"          same store object (other thread): blob in store -> {seen['same_instance']}")
        print(f"[{mode}] same store object AFTER the failed ingestion: "
              f"contains_packed(blob)={same_after} get_raw(blob)={same_after_read!r}")
        if same_after:
            findings.append(
                f"{mode}: after the failure the store object that ran the ingestion still "
                f"answers for blob {BLOB_ID.decode()} from the deleted pack it cached meanwhile"
            )
        if seen["contains"] or seen["read"] == BLOB or seen["cgit"] == (0, BLOB):
            findings.append(
                f"{mode}: blob {BLOB_ID.decode()} of a pack whose ingestion FAILED "
                f"({type(error).__name__}) was visible and readable to other readers "
                f"during the ingestion (installed as {seen['files']})"
            )
    finally:
        shutil.rmtree(tmp, ignore_errors=True)


def main():
    findings = []
    for mode in ("add_thin_pack", "add_pack+commit"):
        run(mode, findings)
    if findings:
        print()
        print("VIOLATION: a failed ingestion made new objects visible:")
        for f in findings:
            print("  -", f)
        return 1
    print("OK: the rejected pack was never visible")
    return 0


if __name__ == "__main__":
    sys.exit(main())
