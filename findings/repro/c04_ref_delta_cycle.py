import os, tempfile, sys, io, struct, zlib, hashlib, signal
sys.path.insert(0,'/repo')
from dulwich.pack import Pack, write_pack_index_v2, pack_object_header, REF_DELTA
from dulwich.object_format import DEFAULT_OBJECT_FORMAT as OF
d = tempfile.mkdtemp(dir=os.environ.get('TMPDIR','/tmp'))
nameA = b"\x01"*20; nameB = b"\x02"*20
delta = bytes([5, 5, 5]) + b"hello"   # src size 5, dst size 5, insert 5
def obj(base):
    return bytes(pack_object_header(REF_DELTA, base, len(delta), OF)) + zlib.compress(delta)
body = b"PACK" + struct.pack(">LL", 2, 2)
offA = len(body); oa = obj(nameB); body += oa
offB = len(body); ob = obj(nameA); body += ob
csum = hashlib.sha1(body).digest()
open(os.path.join(d, "pack-x.pack"), "wb").write(body + csum)
entries = [(nameA, offA, zlib.crc32(oa)), (nameB, offB, zlib.crc32(ob))]
with open(os.path.join(d, "pack-x.idx"), "wb") as f:
    write_pack_index_v2(f, entries, csum)
p = Pack(os.path.join(d, "pack-x"), object_format=OF)
def onalarm(*a): raise TimeoutError("still looping after 5s")
signal.signal(signal.SIGALRM, onalarm); signal.alarm(5)
try:
    p.get_raw(nameA); print("returned?!")
except TimeoutError as e: print("C04 REF cycle:", e)
except Exception as e: print("C04 REF cycle: raised", type(e).__name__, e)
finally:
    signal.alarm(0); p.close()
