"""F02.1: Pack.data caches the PackData before check_length_and_checksum() has passed.  The first access of a
pack whose .idx belongs to a different pack raises (ChecksumMismatch / AssertionError); every later access
hands the unchecked data out."""
import os, sys, tempfile, shutil
sys.path.insert(0, '/repo')
from dulwich.objects import Blob
from dulwich.pack import Pack, write_pack
from dulwich.object_format import DEFAULT_OBJECT_FORMAT

d = tempfile.mkdtemp(dir=os.environ.get('TMPDIR', '/tmp'))
def mk(name, payloads):
    objs = [(Blob.from_string(p), None) for p in payloads]
    write_pack(os.path.join(d, name), objs, object_format=DEFAULT_OBJECT_FORMAT)
mk("a", [b"one", b"two"]); mk("b", [b"three", b"four"])
shutil.copy(os.path.join(d, "b.idx"), os.path.join(d, "a.idx"))      # index of another pack
p = Pack(os.path.join(d, "a"), object_format=DEFAULT_OBJECT_FORMAT)
for attempt in (1, 2):
    try:
        data = p.data
        print(f"access {attempt}: handed out unchecked pack data ({len(data)} objects)")
    except Exception as e:
        print(f"access {attempt}: refused with {type(e).__name__}")
p.close()
