"""Exhaustive compare of _find_lcas in cwd checkout vs truth on small DAGs x timestamp orders."""
import itertools, sys
from dulwich.graph import _find_lcas

def dags(n):
    # nodes 0..n-1, parents have smaller index (topological); each node chooses subset of earlier nodes
    pairs = [(i, j) for i in range(n) for j in range(i)]
    for mask in range(1 << len(pairs)):
        g = {i: [] for i in range(n)}
        for k, (i, j) in enumerate(pairs):
            if mask >> k & 1:
                g[i].append(j)
        yield g

def weak_orders(n):
    # all assignments of ranks (ties included) - use all functions n -> range(n) that are "surjective onto prefix"
    for t in itertools.product(range(n), repeat=n):
        s = set(t)
        if s == set(range(len(s))):
            yield t

def anc(g, x):
    seen = {x}; st = [x]
    while st:
        c = st.pop()
        for p in g[c]:
            if p not in seen:
                seen.add(p); st.append(p)
    return seen

def truth(g, a, bs):
    A = anc(g, a)
    B = set()
    for b in bs: B |= anc(g, b)
    common = A & B
    return {c for c in common if not any(c != d and c in anc(g, d) for d in common)}

def main(n):
    bad = 0; total = 0; mono_bad = 0
    examples = []
    for g in dags(n):
        A = {i: anc(g, i) for i in g}
        for t in weak_orders(n):
            mono = all(t[p] < t[c] for c in g for p in g[c])
            for a in range(n):
                for b in range(n):
                    if a == b: continue
                    total += 1
                    names = {i: "n%d" % i for i in g}
                    got = set(_find_lcas(lambda c: g[c], a, [b], lambda c: t[c]))
                    exp = truth(g, a, [b])
                    if got != exp:
                        bad += 1
                        if mono: mono_bad += 1
                        if len(examples) < 2000:
                            examples.append((g, t, a, b, sorted(got), sorted(exp), mono))
    print("n", n, "total", total, "bad", bad, "mono_bad", mono_bad)
    return examples

if __name__ == "__main__":
    import pickle
    n = int(sys.argv[1])
    ex = main(n)
    pickle.dump(ex, open(sys.argv[2], "wb"))
    for e in ex[:5]: print(e)
