#!/usr/bin/env python
"""C07 / h1 -- reftable backend: the tables named by the current tables.list are deleted
BEFORE (and outside of) the lock-protected replacement of tables.list.

Three scenarios on the unmodified library, each forced deterministically:

 S1  failed write:   a second writer holds tables.list.lock; a batch flush gets FileLocked --
                     but it has already deleted every table the (unchanged) tables.list names.
                     Property: "a write that fails ... leaves the old content in place".
 S2  reader:         a reader that looks at the refs at the moment the flushing writer asks
                     for the lock (no failure at all) finds tables.list naming deleted files.
                     Property: "readers see the complete old content or the complete new content".
 S3  second writer:  writer W2 has created its (still empty) table file; writer W1 commits an
                     unrelated single-ref update; W1's new tables.list publishes W2's unfinished
                     table (the list is rebuilt from os.listdir), so a reader reads a partial table.

exit 1 = violation observed, exit 0 = library behaves as the property says.
"""

import os
import shutil
import sys
import tempfile

import dulwich

assert os.path.dirname(dulwich.__file__) == os.path.join(os.environ.get("VERIF_REPO", "/repo"), "dulwich"), dulwich.__file__

import dulwich.reftable as reftable_mod
from dulwich.file import FileLocked, GitFile
from dulwich.reftable import ReftableRefsContainer

A = b"a" * 40
B = b"b" * 40
C = b"c" * 40
D = b"d" * 40
MAIN = b"refs/heads/main"
DEV = b"refs/heads/dev"
OLD = {MAIN: A, DEV: B}
problems = []


def fresh_view(path):
    """What an independent reader (new process) sees: dict of the two refs, or the exception."""
    try:
        r = ReftableRefsContainer(path)
        d = r.as_dict()
        return {k: d.get(k) for k in (MAIN, DEV)}
    except Exception as e:  # noqa: BLE001
        return e


def dangling(path):
    rd = os.path.join(path, "reftable")
    with open(os.path.join(rd, "tables.list"), "rb") as f:
        names = [l.strip().decode() for l in f if l.strip()]
    return [n for n in names if not os.path.exists(os.path.join(rd, n))]


def setup():
    d = tempfile.mkdtemp(prefix="c07h1-")
    r = ReftableRefsContainer(d)
    assert r.set_if_equals(MAIN, None, A)
    assert r.set_if_equals(DEV, None, B)
    assert fresh_view(d) == OLD, fresh_view(d)
    return d, r


# ---------------------------------------------------------------- S1
def s1():
    d, r = setup()
    try:
        tl = os.path.join(d, "reftable", "tables.list")
        with open(tl, "rb") as f:
            list_before = f.read()
        other = GitFile(tl, "wb")  # writer B is inside its critical section
        failed = None
        try:
            with r.batch_update():
                r.set_if_equals(MAIN, A, C)
        except FileLocked as e:
            failed = e
        finally:
            other.abort()  # B gives up without changing anything
        if failed is None:
            problems.append("S1: the flush obtained a lock that another writer was holding")
            return
        with open(tl, "rb") as f:
            list_after = f.read()
        view = fresh_view(d)
        print("S1: flush failed with FileLocked (correct).  tables.list unchanged:", list_after == list_before)
        print("S1: tables named by tables.list that no longer exist:", dangling(d))
        print("S1: refs seen by a new reader afterwards:", repr(view))
        if view != OLD:
            problems.append(
                "S1: a write that FAILED (FileLocked) destroyed the old content: "
                f"expected {OLD!r}, reader got {view!r}"
            )
    finally:
        shutil.rmtree(d, ignore_errors=True)


# ---------------------------------------------------------------- S2
def s2():
    d, r = setup()
    real_gitfile = reftable_mod.GitFile
    seen = []

    def gitfile_with_reader(path, mode="rb", *a, **kw):
        # the reader runs at the instant the writer is about to take tables.list.lock
        if "w" in mode and os.path.basename(os.fspath(path)) == "tables.list" and not seen:
            seen.append(fresh_view(d))
        return real_gitfile(path, mode, *a, **kw)

    reftable_mod.GitFile = gitfile_with_reader
    try:
        with r.batch_update():
            r.set_if_equals(MAIN, A, C)
    finally:
        reftable_mod.GitFile = real_gitfile
    try:
        new = {MAIN: C, DEV: B}
        final = fresh_view(d)
        print("S2: reader during the flush saw:", repr(seen[0]) if seen else None)
        print("S2: reader after the flush sees:", repr(final))
        if not seen:
            problems.append("S2: interposition did not trigger (code changed?)")
        elif seen[0] != OLD and seen[0] != new:
            problems.append(
                "S2: a concurrent reader saw neither the old nor the new refs while the "
                f"writer had not even taken the lock yet: {seen[0]!r}"
            )
    finally:
        shutil.rmtree(d, ignore_errors=True)


# ---------------------------------------------------------------- S3
def s3():
    d, r1 = setup()
    r2 = ReftableRefsContainer(d)  # second writer (another process)
    real_write = reftable_mod.ReftableWriter.write
    state = {"done": False, "mid": None}

    def write_with_other_writer(self):
        # W2 has open()ed its table file (empty so far).  Now W1 commits an unrelated update.
        if not state["done"]:
            state["done"] = True
            assert r1.set_if_equals(DEV, B, D)
            state["mid"] = fresh_view(d)
        return real_write(self)

    reftable_mod.ReftableWriter.write = write_with_other_writer
    try:
        r2.set_if_equals(MAIN, A, C)
    finally:
        reftable_mod.ReftableWriter.write = real_write
    try:
        ok_views = ({MAIN: A, DEV: D}, {MAIN: C, DEV: D})
        print("S3: reader after W1 committed, while W2 is still writing its table:", repr(state["mid"]))
        if state["mid"] not in ok_views:
            problems.append(
                "S3: W1's tables.list published W2's unfinished table; a reader got "
                f"{state['mid']!r} instead of a complete state"
            )
    finally:
        shutil.rmtree(d, ignore_errors=True)


for fn in (s1, s2, s3):
    try:
        fn()
    except Exception as e:  # noqa: BLE001
        import traceback

        traceback.print_exc()
        problems.append(f"{fn.__name__}: unexpected {type(e).__name__}: {e}")
    print()

if problems:
    print("VIOLATION of C07 (all-or-nothing replacement, reftable backend):")
    for p in problems:
        print("  -", p)
    sys.exit(1)
print("OK: failed/in-flight reftable updates never expose anything but a complete old or new state")
sys.exit(0)
