import os, tempfile, shutil, sys, io
sys.path.insert(0,'/repo')
from dulwich.repo import Repo, MemoryRepo
from dulwich.objects import Blob, Tree, Commit, ZERO_SHA
from dulwich.refs import Ref

# C16 reftable unconditional overwrite
from dulwich.reftable import ReftableRefsContainer
d = tempfile.mkdtemp(dir=os.environ.get('TMPDIR','/tmp'))
rc = ReftableRefsContainer(d)
A=b"a"*40; B=b"b"*40
rc[Ref(b"refs/heads/x")] = A
rc[Ref(b"refs/heads/x")] = B
print("C16 reftable overwrite: expect b.. ->", rc[Ref(b"refs/heads/x")][:4])
del rc[Ref(b"refs/heads/x")]
print("C16 reftable delete: expect missing ->", Ref(b"refs/heads/x") in rc.allkeys())
print("C16 reftable create with old=ZERO:", rc.set_if_equals(Ref(b"refs/heads/y"), ZERO_SHA, A))

# C20 config
from dulwich.config import ConfigFile
for v in [b"a;b", b"a\rb", b"x#y", b" lead", b"tab\t"]:
    c = ConfigFile(); c.set((b"s",), b"k", v)
    f = io.BytesIO(); c.write_to_file(f); f.seek(0)
    c2 = ConfigFile.from_file(f)
    print("C20", v, "->", c2.get((b"s",), b"k"), "raw:", f.getvalue())

# C11 long names
from dulwich.index import Index, IndexEntry
d = tempfile.mkdtemp(dir=os.environ.get('TMPDIR','/tmp'))
for n in (0xFFE, 0xFFF, 0x1000, 0x1001):
    p = os.path.join(d, "idx%d"%n)
    i = Index(p, read=False)
    name = b"d/"+b"n"*(n-2)
    i[name] = IndexEntry(ctime=0,mtime=0,dev=0,ino=0,mode=0o100644,uid=0,gid=0,size=0,sha=b"e69de29bb2d1d6434b8b29ae775ad8c2e48c5391",flags=0,extended_flags=0)
    try:
        i.write()
        j = Index(p)
        print("C11 len", n, "roundtrip ok:", list(j) == [name], [len(x) for x in j][:2])
    except Exception as e:
        print("C11 len", n, "ERR", type(e).__name__, e)
