#!/usr/bin/env python
"""C08 / h3: a ref deleted with remove_if_equals() comes back when refs are packed meanwhile.

remove_if_equals() holds only <ref>.lock.  Its helper _remove_packed_ref()
first looks at packed-refs WITHOUT packed-refs.lock

    if name not in self.get_packed_refs():
        return

and, when the ref is loose only, never takes packed-refs.lock at all.  The
deleter then removes the loose file.  A pack_refs() that runs between that
unlocked look and the removal of the loose file reads the (still current!)
value, writes it to packed-refs, and the deleter - which has already decided
that packed-refs needs no attention - removes only the loose file.  The delete
is reported successful, yet the ref is still there, served from packed-refs.

C git keeps packed-refs.lock for the whole deletion precisely for this reason
(refs/files-backend.c: "we do need to leave it locked, so that somebody else
doesn't pack a reference that we are trying to delete").

Forced schedule (two threads with explicit hand-over, two Repo objects):

  D: remove_if_equals(refs/heads/x, A): takes x.lock, compares, looks at
     packed-refs (x not there)                    ... stops right before os.remove(x)
  P: pack_refs(all=True): reads x = A (correct at that time), rewrites
     packed-refs with x = A                       ... stops right before pruning loose x
  D: removes loose x, releases x.lock, returns True
  P: prunes loose x (already gone), done

Nothing in P's part is stale: x really is A when P reads it and when P writes
packed-refs.  Exit status 1 = the successfully deleted ref exists afterwards.
"""

import os
import shutil
import sys
import tempfile
import threading

import dulwich

pass  # run against the installed dulwich (/repo)

from dulwich.repo import Repo  # noqa: E402

IDENT = b"Demo <demo@example.com>"
REF = b"refs/heads/x"
TIMEOUT = 20


def main():
    d = tempfile.mkdtemp(prefix="c08h3-")
    real_remove = os.remove
    try:
        r = Repo.init(d)
        with open(os.path.join(d, "f"), "w") as f:
            f.write("one\n")
        wt = r.get_worktree()
        wt.stage(["f"])
        a = wt.commit(message=b"base", committer=IDENT, author=IDENT)
        assert r.refs.add_if_new(REF, a)
        x_path = os.fsencode(r.refs.refpath(REF))
        assert os.path.exists(x_path)
        assert REF not in r.refs.get_packed_refs()  # loose only
        r.close()

        deleter = Repo(d)
        packer = Repo(d)

        d_at_remove = threading.Event()  # D is about to remove the loose file
        p_packed = threading.Event()  # P has rewritten packed-refs (or gave up)
        d_done = threading.Event()  # D has returned
        seen = {"D": False, "P": False}
        out = {}

        def hooked_remove(path, *args, **kw):
            who = threading.current_thread().name
            try:
                same = os.fsencode(path) == x_path
            except TypeError:
                same = False
            if same and who == "D" and not seen["D"]:
                seen["D"] = True
                d_at_remove.set()
                p_packed.wait(TIMEOUT)
            elif same and who == "P" and not seen["P"]:
                seen["P"] = True
                p_packed.set()
                d_done.wait(TIMEOUT)
            return real_remove(path, *args, **kw)

        def run_d():
            try:
                out["D"] = deleter.refs.remove_if_equals(REF, a)
            except BaseException as e:
                out["D"] = e
            finally:
                d_at_remove.set()
                d_done.set()

        def run_p():
            d_at_remove.wait(TIMEOUT)
            try:
                packer.refs.pack_refs(all=True)
                out["P"] = "ok"
            except BaseException as e:  # e.g. FileLocked: the packer lost, fine
                out["P"] = e
            finally:
                p_packed.set()

        os.remove = hooked_remove
        try:
            td = threading.Thread(target=run_d, name="D")
            tp = threading.Thread(target=run_p, name="P")
            td.start()
            tp.start()
            td.join(3 * TIMEOUT)
            tp.join(3 * TIMEOUT)
        finally:
            os.remove = real_remove
        deleter.close()
        packer.close()

        check = Repo(d)
        try:
            value = check.refs.read_ref(REF)
            listed = REF in check.refs.allkeys()
        finally:
            check.close()

        print(f"deleter: remove_if_equals({REF.decode()}, A) -> {out.get('D')!r}")
        print(f"packer : pack_refs(all=True) -> {out.get('P')!r}")
        print(
            f"hand-over points reached: D before os.remove={seen['D']}, "
            f"P before prune={seen['P']}"
        )
        print(f"afterwards: read_ref -> {value!r}, listed in allkeys -> {listed}")

        if out.get("D") is True and (value is not None or listed):
            print(
                "VIOLATION - the ref was deleted successfully (and nobody "
                "re-created it), yet it exists again with its old value: "
                "pack_refs wrote it to packed-refs after the deleter had looked "
                "at packed-refs without holding packed-refs.lock"
            )
            return 1
        print("OK: the deleted ref stayed deleted (or the deleter was told it failed)")
        return 0
    finally:
        os.remove = real_remove
        shutil.rmtree(d, ignore_errors=True)


if __name__ == "__main__":
    sys.exit(main())
