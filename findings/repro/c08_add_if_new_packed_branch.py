#!/usr/bin/env python
"""C08 / h2: add_if_new() through a symbolic ref overwrites a ref that exists (packed).

DiskRefsContainer.add_if_new(name, ...) resolves `name` to `realname` before
it takes the lock, and under the lock re-checks existence with

    if os.path.exists(filename) or name in self.get_packed_refs():

`filename` is the loose file of `realname`, but the packed-refs test uses
`name` - the symbolic ref that was passed in (HEAD), which is never in
packed-refs.  If the target branch has been created AND packed since
add_if_new() looked at it, the re-check under the lock sees nothing and the
existing ref is overwritten.

The very first commit on an unborn branch goes through exactly this call
(WorkTree.commit -> refs.add_if_new(b"HEAD", ...)).

Scenario 1 (three actors, commits): two actors make the initial commit on the
  unborn branch at the same time, a third runs pack_refs(all=True):
    B: reads HEAD -> branch unborn, builds a root commit, add_if_new(HEAD):
       follow(HEAD) says "does not exist"
    A: commits root commit C1 (succeeds)               \\ forced to run just before
    P: pack_refs(all=True): branch now only in packed-refs / B takes <branch>.lock
    B: takes the lock, re-check passes, writes C2, reports success
  Both commits are reported successful; C1 is not in the history of the branch.

Scenario 2 (same thing with bare ref operations):
    B: add_if_new(HEAD, Y)   A: add_if_new(<branch>, X); P: pack_refs(all=True)
  Both add_if_new calls return True, which no serial order allows.

Exit status 1 = violation, 0 = the loser was told it lost.
"""

import os
import shutil
import sys
import tempfile

import dulwich

pass  # run against the installed dulwich (/repo)

from dulwich.objects import Tree  # noqa: E402
from dulwich.refs import SYMREF  # noqa: E402
from dulwich.repo import Repo  # noqa: E402

IDENT_A = b"Actor A <a@example.com>"
IDENT_B = b"Actor B <b@example.com>"


def ancestors(repo, tip):
    seen = set()
    todo = [tip]
    while todo:
        sha = todo.pop()
        if sha in seen:
            continue
        seen.add(sha)
        todo.extend(repo[sha].parents)
    return seen


class LockHook:
    """Run `action` once, right before the armed actor creates `<branch>.lock`."""

    def __init__(self, lock_suffix, action):
        self.lock_suffix = lock_suffix
        self.action = action
        self.armed = False
        self.fired = False
        self.real_open = os.open

    def __call__(self, path, flags, *a, **kw):
        if (
            self.armed
            and not self.fired
            and isinstance(path, (bytes, str))
            and os.fsencode(path).endswith(self.lock_suffix)
            and flags & os.O_EXCL
        ):
            self.fired = True
            self.armed = False
            self.action()
        return self.real_open(path, flags, *a, **kw)

    def __enter__(self):
        os.open = self
        self.armed = True
        return self

    def __exit__(self, *exc):
        self.armed = False
        os.open = self.real_open


def setup():
    d = tempfile.mkdtemp(prefix="c08h2-")
    r = Repo.init(d)
    tree = Tree()
    r.object_store.add_object(tree)
    head = r.refs.read_ref(b"HEAD")
    assert head.startswith(SYMREF), head
    branch = head[len(SYMREF) :]
    assert branch not in r.refs  # unborn
    r.close()
    return d, tree.id, branch


def scenario_commits():
    d, tree_id, branch = setup()
    try:
        a, b, p = Repo(d), Repo(d), Repo(d)
        got = {}

        def others():
            got["C1"] = a.get_worktree().commit(
                message=b"initial commit by A",
                tree=tree_id,
                committer=IDENT_A,
                author=IDENT_A,
            )
            p.refs.pack_refs(all=True)

        c2 = None
        err = None
        with LockHook(branch + b".lock", others) as hook:
            try:
                c2 = b.get_worktree().commit(
                    message=b"initial commit by B",
                    tree=tree_id,
                    committer=IDENT_B,
                    author=IDENT_B,
                )
            except Exception as e:
                err = e
        for x in (a, b, p):
            x.close()
        if not hook.fired:
            print("scenario 1: hook never fired (library restructured?)")
            return True
        check = Repo(d)
        try:
            tip = check.refs[branch]
            hist = ancestors(check, tip)
        finally:
            check.close()
        print(
            f"scenario 1: A committed {got['C1'].decode()[:10]} (success), "
            f"B -> {c2.decode()[:10] if c2 else repr(err)}, "
            f"final {branch.decode()} = {tip.decode()[:10]}"
        )
        lost = [
            n
            for n, c in (("A", got["C1"]), ("B", c2))
            if c is not None and c not in hist
        ]
        if lost:
            print(
                "scenario 1: VIOLATION - commit(s) of "
                + ",".join(lost)
                + " reported successful but not contained in the final branch "
                "history (B's add_if_new(HEAD) overwrote the packed branch)"
            )
            return False
        return True
    finally:
        shutil.rmtree(d, ignore_errors=True)


def scenario_plain():
    d, tree_id, branch = setup()
    try:
        # Two distinct, valid object ids to point the branch at.
        seed = Repo(d)
        wt = seed.get_worktree()
        x = wt.commit(
            message=b"X", tree=tree_id, committer=IDENT_A, author=IDENT_A, ref=None
        )
        y = wt.commit(
            message=b"Y", tree=tree_id, committer=IDENT_B, author=IDENT_B, ref=None
        )
        seed.close()
        a, b, p = Repo(d), Repo(d), Repo(d)
        res = {}

        def others():
            res["A"] = a.refs.add_if_new(branch, x)
            p.refs.pack_refs(all=True)

        with LockHook(branch + b".lock", others) as hook:
            try:
                res["B"] = b.refs.add_if_new(b"HEAD", y)
            except Exception as e:
                res["B"] = e
        for r in (a, b, p):
            r.close()
        if not hook.fired:
            print("scenario 2: hook never fired (library restructured?)")
            return True
        check = Repo(d)
        try:
            final = check.refs[branch]
        finally:
            check.close()
        print(
            f"scenario 2: A.add_if_new({branch.decode()}, X) -> {res['A']!r}; "
            f"B.add_if_new(HEAD, Y) -> {res['B']!r}; final = "
            f"{'X' if final == x else 'Y' if final == y else final}"
        )
        if res["A"] is True and res["B"] is True:
            print(
                "scenario 2: VIOLATION - both add_if_new calls on the same ref "
                "returned True; in every serial order the second one finds the "
                "ref present and must return False"
            )
            return False
        return True
    finally:
        shutil.rmtree(d, ignore_errors=True)


def main():
    results = [scenario_commits(), scenario_plain()]
    if all(results):
        print("OK: the loser of the creation race was told so")
        return 0
    return 1


if __name__ == "__main__":
    sys.exit(main())
