#!/usr/bin/env python
"""C14 / h2: packing a ref changes its peeled value.

A ref outside refs/tags/ (here refs/remotes/origin/tags/v1, as produced by a
refspec like +refs/tags/*:refs/remotes/origin/tags/*) points at an annotated
tag.  While the ref is loose, Repo.get_peeled() answers with the tagged commit.
After DiskRefsContainer.pack_refs(all=True) the packed-refs file written by
dulwich carries the header "# pack-refs with: peeled" (without "fully-peeled")
and no "^" line for that ref.  Under that header the absence of a "^" line
says nothing about refs outside refs/tags/ (that is what C git implements and
why it introduced "fully-peeled"), but DiskRefsContainer.get_peeled() takes it
for "known not to be a tag" and returns the tag object's own id.

exit 0: get_peeled gives the same answer before and after packing
exit 1: packing the refs changed the answer (the defect)
"""

import os
import shutil
import subprocess
import sys
import tempfile

import dulwich

pass  # run against the installed dulwich (/repo)

from dulwich.objects import Commit, Tag
from dulwich.repo import Repo

REF = b"refs/remotes/origin/tags/v1"
WHO = b"A U Thor <a@example.com>"


def main() -> int:
    d = tempfile.mkdtemp(prefix="c14-h2-")
    try:
        r = Repo.init(d)
        commit_id = r.get_worktree().commit(
            message=b"initial",
            committer=WHO,
            author=WHO,
            commit_timestamp=1000000000,
            commit_timezone=0,
            author_timestamp=1000000000,
            author_timezone=0,
        )
        tag = Tag()
        tag.name = b"v1"
        tag.object = (Commit, commit_id)
        tag.tagger = WHO
        tag.tag_time = 1000000000
        tag.tag_timezone = 0
        tag.message = b"release\n"
        r.object_store.add_object(tag)
        r.refs[REF] = tag.id

        loose_answer = r.get_peeled(REF)
        loose_cached = r.refs.get_peeled(REF)
        r.close()

        # Pack all refs with dulwich itself.
        r = Repo(d)
        r.refs.pack_refs(all=True)
        r.close()
        with open(os.path.join(d, ".git", "packed-refs"), "rb") as f:
            packed_file = f.read()

        r = Repo(d)
        ref_value = r.refs[REF]
        packed_answer = r.get_peeled(REF)
        packed_cached = r.refs.get_peeled(REF)
        r.close()

        # Reference: what C git derives from the very same packed-refs file.
        git_answer = None
        if shutil.which("git"):
            out = subprocess.run(
                ["git", "show-ref", "-d"], cwd=d, capture_output=True, check=True
            ).stdout
            for line in out.splitlines():
                sha, name = line.split(b" ", 1)
                if name == REF + b"^{}":
                    git_answer = sha

        print("commit          :", commit_id.decode())
        print("annotated tag   :", tag.id.decode())
        print("ref value       :", ref_value.decode(), "(unchanged by packing:", ref_value == tag.id, ")")
        print("packed-refs written by dulwich:")
        for line in packed_file.splitlines():
            print("    " + line.decode())
        print("Repo.get_peeled, ref loose  :", loose_answer)
        print("Repo.get_peeled, ref packed :", packed_answer)
        print("refs.get_peeled, ref loose  :", loose_cached, "(None = 'not cached, peel via object store')")
        print("refs.get_peeled, ref packed :", packed_cached)
        print("C git show-ref -d, ref packed:", git_answer)

        ok = True
        if loose_answer != commit_id:
            print("unexpected: loose answer is not the tagged commit")
            ok = False
        if packed_answer != loose_answer:
            print(
                "VIOLATION: Repo.get_peeled(%s) changed from the tagged commit to "
                "the tag object when the ref moved into packed-refs" % REF.decode()
            )
            ok = False
        if git_answer is not None and packed_answer != git_answer:
            print("           (C git reads the same packed-refs file and still peels to the commit)")
        return 0 if ok else 1
    finally:
        shutil.rmtree(d, ignore_errors=True)


if __name__ == "__main__":
    sys.exit(main())
