"""C13: after an in-process un-shallow the history walk still stops at the old shallow boundary.

Repo.__init__ loads the `shallow` file as parentless graft points.  update_shallow(None, {sha}) rewrote the file but left
the graft point in memory, so ParentsProvider kept answering "no parents" for the former boundary commit: a walk from
the tip in the same Repo object yields 1 commit although all 3 are present (a reopened Repo yields 3).
Exit 1 when the walk in the live Repo object differs from the walk after reopening."""
import os, sys, tempfile, shutil
from dulwich.repo import Repo
from dulwich.objects import Tree, Commit
base = tempfile.mkdtemp(); path = os.path.join(base, "r")
r = Repo.init(path, mkdir=True)
t = Tree(); r.object_store.add_object(t)
def commit(n, parents):
    c = Commit(); c.tree = t.id; c.parents = parents; c.author = c.committer = b"a <a@b>"
    c.author_time = c.commit_time = n; c.author_timezone = c.commit_timezone = 0; c.message = b"m%d" % n
    r.object_store.add_object(c); return c.id
c1 = commit(1, []); c2 = commit(2, [c1]); c3 = commit(3, [c2])
r.refs[b"refs/heads/master"] = c3
r.update_shallow({c3}, None)          # pretend the clone was made with depth 1 (objects are all here, as after the deepening fetch)
r.close()
r = Repo(path)
print("shallow repo, walk from tip:", len(list(r.get_walker(include=[c3]))))
r.update_shallow(None, {c3})          # what fetch(depth=infinite) does after receiving the history
live = len(list(r.get_walker(include=[c3])))
r.close()
r = Repo(path); fresh = len(list(r.get_walker(include=[c3]))); r.close()
print("after un-shallow: same Repo object:", live, " reopened:", fresh)
shutil.rmtree(base); sys.exit(1 if live != fresh else 0)
