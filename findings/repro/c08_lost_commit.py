import os, tempfile, sys
sys.path.insert(0,'/repo')
from dulwich.repo import Repo
from dulwich.objects import Blob, Tree, Commit
from dulwich.refs import DiskRefsContainer
d = tempfile.mkdtemp(dir=os.environ.get('TMPDIR','/tmp'))
r = Repo.init(d)
tr = Tree(); r.object_store.add_object(tr)
kw = dict(committer=b"a <a@b>", author=b"a <a@b>", commit_timestamp=1, commit_timezone=0, tree=tr.id)
A = r.get_worktree().commit(message=b"A", **kw)
# Actor 2 commits B in between actor 1's two reads of the branch
r2 = Repo(d)
orig = DiskRefsContainer.__getitem__
state = {"n": 0}
def patched(self, name):
    v = orig(self, name)
    if self is r.refs and name == b"HEAD":
        state["n"] += 1
        if state["n"] == 1:
            # after actor 1's FIRST read, actor 2 lands a commit
            state["B"] = r2.get_worktree().commit(message=b"B", **kw)
    return v
DiskRefsContainer.__getitem__ = patched
C = r.get_worktree().commit(message=b"C", **kw)
DiskRefsContainer.__getitem__ = orig
B = state["B"]
hist = [e.commit.id for e in r.get_walker()]
print("A,B,C reported successful; final history contains B (expect True):", B in hist)
print("history:", [r[h].message for h in hist])
r.close(); r2.close()
