#!/usr/bin/env python
"""C17 / h1: submodule_update() checks a submodule out THROUGH a symlink that an
earlier checkout left at the submodule path, i.e. outside the work tree.

Run:  cd /repo && PYTHONPATH=/repo /venv/bin/python /repo-out/h1/demo.py

History of the (attacker controlled) upstream repository:
    C1:  sub -> ../outside            (a symlink)
    C2:  .gitmodules + gitlink "sub"  (a submodule at the same path)

Victim:
    clone at C1                       -> work tree contains the symlink "sub"
    reset --mixed C2                  -> HEAD/index say "sub is a submodule",
                                         the work tree (by definition of a mixed
                                         reset) still holds the symlink
    checkout -- .gitmodules           -> bring the submodule description back
    submodule update --init           -> clones the submodule and checks its
                                         tree out into <worktree>/sub, which
                                         resolves to <parent>/outside

Expected (property C17, and C git >= 2.39.4: "expected submodule path 'sub' not
to be a symbolic link"): nothing outside the work tree is created or changed.
Observed: <parent>/outside/canary is overwritten, <parent>/outside/payload.sh
(mode 0755) and <parent>/outside/.git are created.

Exit status: 1 when something outside the work tree changed, 0 otherwise.
"""

import os
import shutil
import stat
import sys
import tempfile

import dulwich

pass  # run against the installed dulwich (/repo)

from dulwich import porcelain
from dulwich.objects import Blob, Commit, Tree
from dulwich.repo import Repo


def snapshot(root):
    out = {}
    for dp, dns, fns in os.walk(root):
        for n in dns + fns:
            p = os.path.join(dp, n)
            rel = os.path.relpath(p, root)
            st = os.lstat(p)
            if stat.S_ISLNK(st.st_mode):
                out[rel] = ("link", os.readlink(p))
            elif stat.S_ISDIR(st.st_mode):
                out[rel] = ("dir", oct(stat.S_IMODE(st.st_mode)))
            else:
                with open(p, "rb") as f:
                    out[rel] = ("file", oct(stat.S_IMODE(st.st_mode)), f.read())
    return out


def commit(store, tree_id, parents=()):
    c = Commit()
    c.tree = tree_id
    c.parents = list(parents)
    c.author = c.committer = b"A U Thor <author@example.invalid>"
    c.author_time = c.commit_time = 0
    c.author_timezone = c.commit_timezone = 0
    c.message = b"msg\n"
    store.add_object(c)
    return c.id


def main():
    base = tempfile.mkdtemp(prefix="c17-h1-")
    devnull = open(os.devnull, "wb")
    try:
        # The sandbox parent: <base>/outside is NOT part of any work tree.
        outside = os.path.join(base, "outside")
        os.mkdir(outside)
        with open(os.path.join(outside, "canary"), "w") as f:
            f.write("canary\n")

        # The submodule's upstream.
        subsrc = os.path.join(base, "subsrc")
        os.mkdir(subsrc)
        sr = Repo.init(subsrc)
        payload = Blob.from_string(b"#!/bin/sh\necho pwned\n")
        clobber = Blob.from_string(b"overwritten by the submodule checkout\n")
        sr.object_store.add_object(payload)
        sr.object_store.add_object(clobber)
        st = Tree()
        st.add(b"payload.sh", 0o100755, payload.id)
        st.add(b"canary", 0o100644, clobber.id)
        sr.object_store.add_object(st)
        sub_commit = commit(sr.object_store, st.id)
        sr.refs[b"refs/heads/master"] = sub_commit
        sr.refs.set_symbolic_ref(b"HEAD", b"refs/heads/master")
        sr.close()

        # The superproject's upstream.
        src = os.path.join(base, "src")
        os.mkdir(src)
        r = Repo.init(src)
        link = Blob.from_string(b"../outside")
        gitmodules = Blob.from_string(
            b'[submodule "sub"]\n\tpath = sub\n\turl = ' + subsrc.encode() + b"\n"
        )
        r.object_store.add_object(link)
        r.object_store.add_object(gitmodules)
        t1 = Tree()
        t1.add(b"sub", 0o120000, link.id)
        r.object_store.add_object(t1)
        t2 = Tree()
        t2.add(b".gitmodules", 0o100644, gitmodules.id)
        t2.add(b"sub", 0o160000, sub_commit)
        r.object_store.add_object(t2)
        c1 = commit(r.object_store, t1.id)
        c2 = commit(r.object_store, t2.id, (c1,))
        r.refs[b"refs/heads/master"] = c1
        r.refs[b"refs/heads/next"] = c2
        r.refs.set_symbolic_ref(b"HEAD", b"refs/heads/master")
        r.close()

        before = snapshot(outside)

        wt = os.path.join(base, "wt")
        victim = porcelain.clone(src, wt, errstream=devnull)
        assert os.readlink(os.path.join(wt, "sub")) == "../outside"
        porcelain.reset(victim, "mixed", c2)
        porcelain.checkout(victim, paths=[b".gitmodules"])
        assert os.path.islink(os.path.join(wt, "sub")), "mixed reset keeps the work tree"

        refused = None
        try:
            porcelain.submodule_update(victim, init=True)
        except Exception as e:  # a refusal is the correct behaviour
            refused = e
        victim.close()

        after = snapshot(outside)
        changed = sorted(k for k in set(before) | set(after) if before.get(k) != after.get(k))
        if changed:
            print("VIOLATION: submodule_update wrote outside the work tree %s" % wt)
            for k in changed:
                print("  %s/%s: %r -> %r" % (outside, k, before.get(k), after.get(k)))
            return 1
        print(
            "ok: nothing outside the work tree was touched (submodule_update %s)"
            % ("refused: %r" % refused if refused else "returned normally")
        )
        return 0
    finally:
        devnull.close()
        shutil.rmtree(base, ignore_errors=True)


if __name__ == "__main__":
    sys.exit(main())
