"""C17: patch application writes through a symlink left in the work tree by an earlier checkout, into .git.

Step 1 checks out a tree with a symlink `notes -> .git/hooks/pre-commit` (a sibling target: it stays inside the work
tree, so `_ensure_within_repo` — which only refuses paths that *resolve outside* the repository root — accepts it).
Step 2 applies an ordinary text patch to `notes`.  apply_patches() does `open(fs_path, "wb")`, which follows the link.
Expected: nothing is created or changed below .git/hooks.  Exit 1 when the hook file was written."""
import os, sys, tempfile, shutil
from dulwich.repo import Repo
from dulwich.objects import Blob, Tree, Commit
from dulwich import porcelain
from dulwich.patch import apply_patches, parse_unified_diff

base = tempfile.mkdtemp()
rc = 0
try:
    wt = os.path.join(base, "wt")
    r = Repo.init(wt, mkdir=True)
    link = Blob.from_string(b".git/hooks/pre-commit")
    r.object_store.add_object(link)
    t = Tree(); t.add(b"notes", 0o120000, link.id); r.object_store.add_object(t)
    c = Commit(); c.tree = t.id; c.parents = []
    c.author = c.committer = b"a <a@b>"; c.author_time = c.commit_time = 1
    c.author_timezone = c.commit_timezone = 0; c.message = b"symlink"
    r.object_store.add_object(c)
    r.refs[b"refs/heads/master"] = c.id
    porcelain.reset(r, "hard", c.id)
    assert os.path.islink(os.path.join(wt, "notes")), "checkout did not create the symlink"
    hook = os.path.join(wt, ".git", "hooks", "pre-commit")
    before = open(hook, "rb").read() if os.path.exists(hook) else None
    diff = (b"diff --git a/notes b/notes\n"
            b"new file mode 100755\n"
            b"--- /dev/null\n"
            b"+++ b/notes\n"
            b"@@ -0,0 +1,2 @@\n"
            b"+#!/bin/sh\n"
            b"+echo pwned\n")
    try:
        apply_patches(r, parse_unified_diff(diff))
        print("apply_patches: accepted")
    except Exception as e:  # noqa: BLE001
        print("apply_patches: refused:", type(e).__name__, e)
    after = open(hook, "rb").read() if os.path.exists(hook) else None
    print("hook before:", before, " after:", after, " mode:", oct(os.stat(hook).st_mode & 0o777) if after is not None else None)
    if after != before:
        print("DEFECT: .git/hooks/pre-commit was written by patch application")
        rc = 1
    r.close()
finally:
    shutil.rmtree(base)
sys.exit(rc)
