"""F06.3/F06.4 residual: an atomic push is not all-or-nothing when another writer moves one of the refs
between the validation pass and the apply loop (a schedule, produced here by interposing on the first CAS)."""
import os, sys, tempfile
sys.path.insert(0, '/repo')
from io import BytesIO
import hashlib, struct
from dulwich.repo import Repo
from dulwich.objects import Tree, Commit
from dulwich.server import ReceivePackHandler, DictBackend
from dulwich.protocol import Protocol, pkt_line

def mkcommit(store, parents, t, msg=b"m"):
    tr = Tree(); store.add_object(tr)
    c = Commit(); c.tree = tr.id; c.parents = parents
    c.author = c.committer = b"a <a@b>"; c.author_time = c.commit_time = t
    c.author_timezone = c.commit_timezone = 0; c.message = msg
    store.add_object(c); return c

d = tempfile.mkdtemp(dir=os.environ.get('TMPDIR', '/tmp'))
r = Repo.init_bare(d)
c1 = mkcommit(r.object_store, [], 1, b"1"); c2 = mkcommit(r.object_store, [c1.id], 2, b"2"); c3 = mkcommit(r.object_store, [c1.id], 3, b"3")
r.refs[b"refs/heads/a"] = c1.id; r.refs[b"refs/heads/b"] = c1.id
inp = BytesIO()
inp.write(pkt_line(c1.id + b" " + c2.id + b" refs/heads/a\0report-status atomic"))
inp.write(pkt_line(c1.id + b" " + c2.id + b" refs/heads/b"))
inp.write(pkt_line(None))
hdr = b"PACK" + struct.pack(">LL", 2, 0)
inp.write(hdr + hashlib.sha1(hdr).digest()); inp.seek(0)
out = BytesIO()
# the other actor: moves b right after the server's CAS on a (i.e. between validation and the CAS on b)
orig = type(r.refs).set_if_equals
state = {"n": 0}
def racing(self, name, old, new, **kw):
    res = orig(self, name, old, new, **kw)
    state["n"] += 1
    if state["n"] == 1:
        other = Repo(d); other.refs[b"refs/heads/b"] = c3.id; other.close()
    return res
type(r.refs).set_if_equals = racing
try:
    h = ReceivePackHandler(DictBackend({b"/": r}), [b"/"], Protocol(inp.read, out.write), stateless_rpc=True)
    h.handle()
finally:
    type(r.refs).set_if_equals = orig
print("status:", out.getvalue())
r2 = Repo(d)
print("a moved to c2:", r2.refs[b"refs/heads/a"] == c2.id, "| b rejected, still c3:", r2.refs[b"refs/heads/b"] == c3.id,
      "=> some but not all refs of an atomic push were applied")
