import os, tempfile, sys
sys.path.insert(0,'/repo')
from dulwich.repo import Repo
from dulwich.objects import Blob, Tree, Commit
from dulwich import porcelain
base = tempfile.mkdtemp(dir=os.environ.get('TMPDIR','/tmp'))
wt = os.path.join(base, "wt")
r = Repo.init(wt, mkdir=True)
good = Blob.from_string(b"ok\n"); evil = Blob.from_string(b"pwned\n")
r.object_store.add_object(good); r.object_store.add_object(evil)
t0 = Tree(); t0.add(b"readme", 0o100644, good.id); r.object_store.add_object(t0)
def commit(tree, parents, msg):
    c = Commit(); c.tree = tree.id; c.parents = parents
    c.author = c.committer = b"a <a@b>"; c.author_time = c.commit_time = 1
    c.author_timezone = c.commit_timezone = 0; c.message = msg
    r.object_store.add_object(c); return c
c0 = commit(t0, [], b"base")
r.refs[b"refs/heads/master"] = c0.id
porcelain.reset(r, "hard", c0.id)
# hostile commit: a root entry whose name climbs out of the work tree
t1 = Tree(); t1.add(b"readme", 0o100644, good.id); t1.add(b"../escaped.txt", 0o100644, evil.id); r.object_store.add_object(t1)
c1 = commit(t1, [c0.id], b"hostile")
try:
    porcelain.reset(r, "mixed", c1.id)           # index only, no files touched
    print("index keys:", sorted(r.open_index()))
    porcelain.sparse_checkout(r, patterns=["*", "../*", "/../escaped.txt", "escaped.txt"], force=True, cone=False)
except Exception as e:
    print("raised:", type(e).__name__, e)
print("file escaped outside the work tree (expect False):", os.path.exists(os.path.join(base, "escaped.txt")))
r.close()
