#!/usr/bin/env python
"""C16 / h3: the reftable backend silently loses every ref whose name is 32..47 bytes long
and raises ValueError for names of 48 bytes or more; the in-memory and files backends
store them.

    refs[b"refs/remotes/origin/feature-branch"] = A      # 34 bytes
    refs.as_dict()  ->  {}        (DictRefsContainer / DiskRefsContainer: {name: A})

No symbolic refs, no colliding names, no overwrites: one unconditional write of a fresh ref.

Exit status 1 = reftable backend disagrees with the in-memory backend, 0 = same results.
"""

import shutil
import sys
import tempfile

import dulwich

assert os.path.dirname(dulwich.__file__) == os.path.join(os.environ.get("VERIF_REPO", "/repo"), "dulwich"), dulwich.__file__

from dulwich.refs import DictRefsContainer, DiskRefsContainer
from dulwich.reftable import ReftableRefsContainer

A = b"1" * 40
B = b"2" * 40


def names():
    yield b"refs/remotes/origin/feature-branch"  # 34 bytes, an everyday name
    yield b"refs/heads/dependabot/pip/requests-2.32.0"  # 41 bytes
    yield b"refs/heads/feature/JIRA-1234-make-the-thing-faster"  # 50 bytes
    for n in (30, 31, 32, 33, 47, 48, 49, 64):
        yield b"refs/heads/" + b"x" * (n - len(b"refs/heads/"))


def run_sequence(refs, name):
    """The same three-step history on every backend; returns the observations."""
    obs = []

    def step(label, fn):
        try:
            obs.append((label, fn()))
        except Exception as e:
            obs.append((label, f"raised {type(e).__name__}: {e}"))

    step("add_if_new(short)", lambda: refs.add_if_new(b"refs/heads/m", A))
    step("set_if_equals(name, None, A)", lambda: refs.set_if_equals(name, None, A))
    step("as_dict", lambda: sorted(refs.as_dict().items()))
    step("set_if_equals(name, A, B)", lambda: refs.set_if_equals(name, A, B))
    step("as_dict", lambda: sorted(refs.as_dict().items()))
    return obs


def main():
    bad = []
    for name in names():
        tmp_disk = tempfile.mkdtemp(prefix="c16h3-disk-")
        tmp_rt = tempfile.mkdtemp(prefix="c16h3-rt-")
        try:
            want = run_sequence(DictRefsContainer({}), name)
            disk = run_sequence(DiskRefsContainer(tmp_disk), name)
            rt = run_sequence(ReftableRefsContainer(tmp_rt), name)
            # what a freshly opened reftable container sees
            try:
                reopened = sorted(ReftableRefsContainer(tmp_rt).as_dict().items())
            except Exception as e:
                reopened = f"raised {type(e).__name__}: {e}"
        finally:
            shutil.rmtree(tmp_disk, ignore_errors=True)
            shutil.rmtree(tmp_rt, ignore_errors=True)

        status = "same" if rt == want else "DIFFERENT"
        print(f"{len(name):3d} bytes  {name.decode()}")
        print(f"      files backend == in-memory backend: {disk == want}")
        print(f"      reftable backend vs in-memory     : {status}")
        if rt != want:
            for (label, w), (_, g) in zip(want, rt):
                if w != g:  # show the first step at which the histories diverge
                    print(f"        first difference at step {label}:")
                    print(f"            in-memory: {w!r}")
                    print(f"            reftable : {g!r}")
                    break
            print(f"        reftable after re-open: {reopened!r}")
            bad.append(name)
        if disk != want:
            bad.append(name)

    if bad:
        print(
            "\nVIOLATION: the reftable backend does not give the in-memory backend's results for "
            f"{len(set(bad))} of the names tried (every name of 32 bytes or more)"
        )
        return 1
    print("\nOK: all three backends agree")
    return 0


if __name__ == "__main__":
    sys.exit(main())
