#!/usr/bin/env python
"""C13 / h1: find_octopus_base returns non-maximal and duplicated "bases".

History (timestamps increase from root to tips, no clock skew needed):

    R  root
    A  child of R            B  child of R
    M1 = merge(A, B)         M2 = merge(A, B)        (criss-cross: two merge bases A, B)
    T  child of A            U  child of B           (third branches)

The common ancestors of {M1, M2, T} are {A, R}; the only maximal one is A.
`git merge-base --octopus --all M1 M2 T` prints A.

dulwich.graph.find_octopus_base returns
    [A, R]  for (M1, M2, T)   -- R is an ancestor of A, so it is not a merge base
    [R, B]  for (M1, M2, U)   -- same, and the bogus one comes first, so
                                 porcelain.merge_base(..., octopus=True) answers R
    [R, R]  for (M1, M2, R)   -- the same commit twice

Exit status 1 = violation observed, 0 = library behaves as the property says.
"""

import shutil
import subprocess
import sys
import tempfile

import dulwich

pass  # run against the installed dulwich (/repo)

from dulwich.graph import find_octopus_base
from dulwich.objects import Commit, Tree
from dulwich.repo import Repo

GRAPH = {  # name -> (parents, commit time)
    "R": ([], 1000),
    "A": (["R"], 1010),
    "B": (["R"], 1020),
    "M1": (["A", "B"], 1030),
    "M2": (["A", "B"], 1040),
    "T": (["A"], 1050),
    "U": (["B"], 1060),
}


def ancestors(name):
    seen = {name}
    todo = [name]
    while todo:
        for p in GRAPH[todo.pop()][0]:
            if p not in seen:
                seen.add(p)
                todo.append(p)
    return seen


def truth(names):
    common = set.intersection(*[ancestors(n) for n in names])
    return sorted(
        c for c in common if not any(c != d and c in ancestors(d) for d in common)
    )


def main():
    tmp = tempfile.mkdtemp(prefix="c13-h1-")
    failures = []
    try:
        repo = Repo.init(tmp)
        tree = Tree()
        repo.object_store.add_object(tree)
        ids = {}
        for name, (parents, when) in GRAPH.items():
            c = Commit()
            c.tree = tree.id
            c.parents = [ids[p] for p in parents]
            c.author = c.committer = b"A U Thor <a@example.com>"
            c.author_time = c.commit_time = when
            c.author_timezone = c.commit_timezone = 0
            c.message = name.encode()
            repo.object_store.add_object(c)
            ids[name] = c.id
        names = {v: k for k, v in ids.items()}

        for query in (["M1", "M2", "T"], ["M1", "M2", "U"], ["M1", "M2", "R"]):
            got = [names[x] for x in find_octopus_base(repo, [ids[q] for q in query])]
            want = truth(query)
            out = subprocess.run(
                ["git", "-C", tmp, "merge-base", "--octopus", "--all"]
                + [ids[q].decode() for q in query],
                capture_output=True,
                text=True,
            ).stdout.split()
            cgit = sorted(names[x.encode()] for x in out)
            ok = sorted(got) == want and len(got) == len(set(got))
            print(
                f"octopus base of {query}: dulwich={got}  graph-theoretic={want}  "
                f"C git={cgit}  -> {'ok' if ok else 'WRONG'}"
            )
            if cgit != want:
                print("   (unexpected: C git disagrees with the brute-force answer)")
            if not ok:
                failures.append(query)
        repo.close()
    finally:
        shutil.rmtree(tmp, ignore_errors=True)

    if failures:
        print(
            "VIOLATION: find_octopus_base returned commits that are not exactly the "
            "maximal common ancestors (an ancestor of another result, or a duplicate) "
            f"for {failures}"
        )
        return 1
    print("find_octopus_base returned exactly the maximal common ancestors")
    return 0


if __name__ == "__main__":
    sys.exit(main())
