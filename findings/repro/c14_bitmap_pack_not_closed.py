"""C14: bitmaps generated for a pack that is not closed under reachability change the answer.

porcelain.repack(write_bitmaps=True) packs the loose objects into a NEW pack and then writes a bitmap for every pack.
build_reachability_bitmap() set bits only for the reachable objects that are in the pack and silently dropped the rest,
so the bitmap of the tip commit in the new pack covered 3 of its 6 reachable objects; BitmapReachability then answered
get_reachable_objects / get_reachable_commits from it (3 objects, 1 commit) where graph traversal says 6 and 2.
Expected: identical answers.  Exit 1 when they differ."""
import os, sys, tempfile, shutil
from dulwich.repo import Repo
from dulwich.objects import Blob, Tree, Commit
from dulwich import porcelain
from dulwich.object_store import GraphTraversalReachability, BitmapReachability
base = tempfile.mkdtemp()
path = os.path.join(base, "r")
r = Repo.init(path, mkdir=True)
def commit(n, parents):
    b = Blob.from_string(b"content %d\n" % n); r.object_store.add_object(b)
    t = Tree(); t.add(b"f", 0o100644, b.id); r.object_store.add_object(t)
    c = Commit(); c.tree = t.id; c.parents = parents; c.author = c.committer = b"a <a@b>"
    c.author_time = c.commit_time = n; c.author_timezone = c.commit_timezone = 0; c.message = b"m%d" % n
    r.object_store.add_object(c); return c.id
c1 = commit(1, [])
r.refs[b"refs/heads/master"] = c1
porcelain.repack(path)                      # pack A = {c1, t1, b1}
c2 = commit(2, [c1])
r.refs[b"refs/heads/master"] = c2
r.object_store.pack_loose_objects()
r.object_store._update_pack_cache()
r.object_store.generate_pack_bitmaps(r.refs.as_dict())   # what porcelain.repack(write_bitmaps=True) does, same process
print("bitmap files:", [f for f in os.listdir(os.path.join(path, ".git/objects/pack")) if f.endswith(".bitmap")])
g = GraphTraversalReachability(r.object_store).get_reachable_objects([c2])
prov = r.object_store.get_reachability_provider()
b = prov.get_reachable_objects([c2])
print(type(prov).__name__, "objects:", len(b), " graph traversal:", len(g))
gc = GraphTraversalReachability(r.object_store).get_reachable_commits([c2])
bc = prov.get_reachable_commits([c2])
print("commits:", len(bc), "vs", len(gc))
rc = 1 if (b != g or bc != gc) else 0
r.close(); shutil.rmtree(base); sys.exit(rc)
