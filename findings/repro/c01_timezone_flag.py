#!/usr/bin/env python
"""C01 / h2: the time zone setters leave the "-0000" flag behind -> "--100".

A commit or tag whose time zone is spelled "-0000" (a spelling git emits and
the property lists) is parsed into (timezone=0, *_timezone_neg_utc=True).  The
public setters author_timezone / commit_timezone / tag_timezone only replace
the offset; the private flag survives.  format_timezone(3600, True) then
produces "--100": after one ordinary setter call the object serialises to
bytes C git rejects (fsck: badTimezone) and gets a name different from the one
the same field values give on a fresh object.

Exit status: 1 when the violation is observed, 0 otherwise.
"""

import os
import shutil
import subprocess
import sys
import tempfile

import dulwich

pass  # run against the installed dulwich (/repo)

from dulwich.objects import Commit, Tag

TREE = b"4b825dc642cb6eb9a060e54bf8d69288fbee4904"  # the empty tree
problems = []

RAW_COMMIT = (
    b"tree " + TREE + b"\n"
    b"author A U Thor <a@example.com> 1700000000 -0000\n"
    b"committer C O Mitter <c@example.com> 1700000000 -0000\n"
    b"\n"
    b"subject\n"
)


def fresh_commit(author_tz: int, commit_tz: int) -> Commit:
    c = Commit()
    c.tree = TREE
    c.author = b"A U Thor <a@example.com>"
    c.committer = b"C O Mitter <c@example.com>"
    c.author_time = c.commit_time = 1700000000
    c.author_timezone = author_tz
    c.commit_timezone = commit_tz
    c.message = b"subject\n"
    return c


def check_commit() -> bytes:
    c = Commit.from_string(RAW_COMMIT)
    assert c.as_raw_string() == RAW_COMMIT
    assert (c.author_timezone, c.commit_timezone) == (0, 0)
    # one field edit each, through the public setters
    c.author_timezone = 3600
    c.commit_timezone = 19800
    got = c.as_raw_string()
    want = RAW_COMMIT.replace(
        b"1700000000 -0000\ncommitter", b"1700000000 +0100\ncommitter"
    ).replace(b"1700000000 -0000\n\n", b"1700000000 +0530\n\n")
    if got != want:
        problems.append(
            "commit parsed from '-0000', then author_timezone=3600, commit_timezone=19800:\n"
            f"      got  {got!r}\n      want {want!r}"
        )
    # the same logical object built from scratch
    f = fresh_commit(3600, 19800)
    same_fields = all(
        getattr(c, n) == getattr(f, n)
        for n in (
            "tree parents author committer author_time commit_time "
            "author_timezone commit_timezone encoding message gpgsig"
        ).split()
    )
    if same_fields and c.id != f.id:
        problems.append(
            "two commits with identical public field values have different names:\n"
            f"      edited  {c.id!r}\n      fresh   {f.id!r}"
        )
    return got


RAW_TAG = (
    b"object 1989c4568802b1e5f3bde249ad454bde0989dec0\n"
    b"type commit\n"
    b"tag v1\n"
    b"tagger T Agger <t@example.com> 1700000000 -0000\n"
    b"\n"
    b"release\n"
)


def check_tag() -> None:
    t = Tag.from_string(RAW_TAG)
    assert t.as_raw_string() == RAW_TAG
    t.tag_timezone = 7200
    got = t.as_raw_string()
    want = RAW_TAG.replace(b" -0000\n", b" +0200\n")
    if got != want:
        problems.append(
            "tag parsed from '-0000', then tag_timezone=7200:\n"
            f"      got  {got!r}\n      want {want!r}"
        )


def ask_git(raw: bytes) -> None:
    git = shutil.which("git")
    if not git or not problems:
        return
    tmp = tempfile.mkdtemp(prefix="c01h2-")
    try:
        subprocess.run([git, "init", "-q", tmp], check=True)
        subprocess.run(
            [git, "-C", tmp, "hash-object", "-t", "commit", "-w", "--stdin", "--literally"],
            input=raw,
            check=True,
            capture_output=True,
        )
        r = subprocess.run([git, "-C", tmp, "fsck"], capture_output=True, text=True)
        for line in (r.stderr + r.stdout).splitlines():
            if "Timezone" in line or "time zone" in line:
                problems.append(f"C git fsck on the edited commit (rc={r.returncode}): {line}")
    finally:
        shutil.rmtree(tmp, ignore_errors=True)


def main() -> int:
    raw = check_commit()
    check_tag()
    ask_git(raw)
    if problems:
        print("VIOLATION of C01 (name/bytes after a sequence of setter calls):")
        for p in problems:
            print("  -", p)
        return 1
    print("ok: time zone setters give git's spelling")
    return 0


if __name__ == "__main__":
    os.environ.setdefault("LC_ALL", "C")
    sys.exit(main())
