import sys, zlib, resource
sys.path.insert(0,'/repo')
from dulwich.dumb import DumbHTTPObjectStore
import inspect
print(inspect.signature(DumbHTTPObjectStore.__init__))
body = b"\0" * (200 * 1024 * 1024)
bomb = zlib.compress(b"blob %d\0" % len(body) + body, 9)
print("served bytes:", len(bomb))
repo = DumbHTTPObjectStore.__new__(DumbHTTPObjectStore)
repo._temp_pack_dir = None
repo._fetch_url = lambda path: bomb
before = resource.getrusage(resource.RUSAGE_SELF).ru_maxrss
t, content = repo._fetch_loose_object(b"0"*40)
after = resource.getrusage(resource.RUSAGE_SELF).ru_maxrss
print("inflated to", len(content), "bytes from", len(bomb), "-> factor", len(content)//len(bomb), "; maxrss grew by", (after-before)//1024, "MiB; no bound, no error")
