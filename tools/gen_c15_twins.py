#!/venv/bin/python
"""Regenerates rules/c15_twins.json (the confirmed validation table of the Python/Rust twins, rule R15.5) from the
current tree.  Run only after a change of a twin was confirmed on BOTH sides."""
import os, subprocess, sys, tempfile, json
HERE = os.path.dirname(os.path.dirname(os.path.abspath(__file__)))
out = os.path.join(HERE, "rules", "c15_twins.json")
tmp = tempfile.NamedTemporaryFile(suffix=".json", delete=False).name
if not os.path.exists(out):
    open(out, "w").write("{}")
subprocess.run([os.path.join(HERE, "check"), "C15"], env={**os.environ, "VERIF_C15_DUMP": tmp, "VERIF_SCRATCH_EVIDENCE": "1"}, capture_output=True)
d = json.load(open(tmp)); os.unlink(tmp)
json.dump(d, open(out, "w"), indent=1, sort_keys=True)
print("wrote", out, len(d), "twins")
