#!/usr/bin/env python3
"""Compare a junit xml of the baseline command with /root/.vp/BASELINE.json (development helper, not a check)."""
import json, sys, ast
import xml.etree.ElementTree as ET
b = json.load(open('/root/.vp/BASELINE.json'))
stable = b['stable_pass']
if isinstance(stable, str):
    stable = ast.literal_eval(stable)
stable = set(stable)
t = ET.parse(sys.argv[1])
passed = set()
for tc in t.iter('testcase'):
    ok = not any(ch.tag in ('failure', 'error', 'skipped') for ch in tc)
    name = f"{tc.get('classname')}::{tc.get('name')}"
    if ok:
        passed.add(name)
print("baseline stable:", len(stable), "passed now:", len(passed))
missing = sorted(stable - passed)
print("baseline tests not passing now:", len(missing))
for m in missing[:40]:
    print("  ", m)
