#!/bin/bash
# usage: tools/confirm_many.sh "C10 3" "C10 4" ...   (serialised across invocations through a lock file)
cd /verif
for s in "$@"; do
  set -- $s
  flock /tmp/seed/confirm.lock python3 tools/confirm_seed.py $1 $2 > /tmp/seed/confirm-$1-$2.json 2>&1
done
