#!/venv/bin/python
"""Writes sa/refnames.json.gz: per function of every dulwich/*.py module, the statement shapes and the local names
the rules were confirmed against (see sa/dename.py).  Run after /repo changed *and* the checks were re-confirmed."""
import gzip
import json
import os
import sys

HERE = os.path.dirname(os.path.dirname(os.path.abspath(__file__)))
sys.path.insert(0, HERE)
from sa.dename import build_reference, REF  # noqa: E402

root = os.environ.get("VERIF_REPO", "/repo")
rels = []
for dp, dn, fn in os.walk(os.path.join(root, "dulwich")):
    for f in sorted(fn):
        if f.endswith(".py"):
            rels.append(os.path.relpath(os.path.join(dp, f), root))
ref = build_reference(root, sorted(rels))
with gzip.GzipFile(REF, "wb", mtime=0) as g:
    g.write(json.dumps(ref, separators=(",", ":"), sort_keys=True).encode())
print(f"wrote {REF}: {len(ref)} modules, {sum(len(v) for v in ref.values())} functions, {os.path.getsize(REF)} bytes")
