#!/usr/bin/env python3
"""Development helper: apply a seeded change to /repo, run every quick check, report which fire, undo.
usage: tools/try_seed.py <patch.diff> [demo.py]"""
import subprocess, sys, os, re
patch = os.path.abspath(sys.argv[1])
demo = os.path.abspath(sys.argv[2]) if len(sys.argv) > 2 else None
def sh(*a, **k): return subprocess.run(a, capture_output=True, text=True, **k)
st = sh("git", "-C", "/repo", "status", "--porcelain", "--untracked-files=no").stdout.strip()
if st:
    print("refusing: /repo has local modifications:\n" + st); sys.exit(2)
if demo:
    r = sh("/venv/bin/python", demo, cwd="/repo", env={**os.environ, "PYTHONPATH": "."})
    print("demo on clean tree: exit", r.returncode)
r = sh("git", "-C", "/repo", "apply", patch)
if r.returncode != 0:
    print("patch does not apply:", r.stderr[:300]); sys.exit(2)
try:
    if demo:
        r = sh("/venv/bin/python", demo, cwd="/repo", env={**os.environ, "PYTHONPATH": "."})
        print("demo on changed tree: exit", r.returncode, (r.stdout + r.stderr).strip().splitlines()[-1:] )
    os.environ["VERIF_EVIDENCE_DIR"] = "/tmp/verif-evidence-seed"
    r = sh("/verif/check", "all", env={**os.environ, "VERIF_EVIDENCE_DIR": "/tmp/verif-evidence-seed", "VERIF_SCRATCH_EVIDENCE": "1"})
    fired = []
    for line in r.stdout.splitlines():
        if re.match(r"^(dulwich|crates)/.*: R\d", line):
            fired.append(line[:230])
        if line.startswith("ANALYSIS-ERROR"):
            fired.append(line[:230])
    print("checks fired:", len(fired))
    for f in fired: print("   ", f)
finally:
    sh("git", "-C", "/repo", "checkout", "--", ".")
