#!/usr/bin/env python3
"""Re-run every quick check against each seeded change and refresh seeded/<id>/meta.json (caught_by, caught) and
seeded/TABLE.md (the table DESIGN.md section 9 refers to).

Each change is applied in its own throw-away git worktree of /repo's HEAD under /tmp (removed straight afterwards);
/repo itself is never touched.  usage: tools/sweep_seeds.py [-j N] [ID ...]"""
import concurrent.futures as cf
import json
import os
import re
import subprocess
import sys
import tempfile

VERIF = os.path.dirname(os.path.dirname(os.path.abspath(__file__)))


def sh(*a, **k):
    return subprocess.run(a, capture_output=True, text=True, **k)


def one(sid):
    d = os.path.join(VERIF, "seeded", sid)
    wt = tempfile.mkdtemp(prefix=f"sweep-{sid}-", dir="/tmp")
    os.rmdir(wt)
    ev = tempfile.mkdtemp(prefix=f"sweep-ev-{sid}-", dir="/tmp")
    try:
        r = sh("git", "-C", "/repo", "worktree", "add", "--detach", wt, "HEAD")
        if r.returncode:
            return sid, None, "worktree: " + r.stderr[-200:]
        r = sh("git", "-C", wt, "apply", os.path.join(d, "patch.diff"))
        if r.returncode:
            return sid, None, "patch does not apply: " + r.stderr[-200:]
        r = sh(os.path.join(VERIF, "check"), "all", env={**os.environ, "VERIF_REPO": wt, "VERIF_EVIDENCE_DIR": ev, "VERIF_SCRATCH_EVIDENCE": "1"})
        fired = [re.sub(r"\s+", " ", ln.strip())[:230].replace(wt + "/", "") for ln in r.stdout.splitlines()
                 if re.match(r"^(dulwich|crates)/.*: R\d", ln) or ln.startswith("ANALYSIS-ERROR")]
        return sid, fired, f"exit {r.returncode}"
    finally:
        sh("git", "-C", "/repo", "worktree", "remove", "--force", wt)
        sh("rm", "-rf", wt, ev)


def main():
    args = sys.argv[1:]
    jobs = 8
    if args[:1] == ["-j"]:
        jobs = int(args[1])
        args = args[2:]
    ids = args or sorted(x for x in os.listdir(os.path.join(VERIF, "seeded")) if os.path.isfile(os.path.join(VERIF, "seeded", x, "patch.diff")))
    rows = []
    with cf.ThreadPoolExecutor(jobs) as ex:
        for sid, fired, info in ex.map(one, ids):
            mp = os.path.join(VERIF, "seeded", sid, "meta.json")
            meta = json.load(open(mp))
            if fired is None:
                print(f"{sid}: ERROR {info}")
                rows.append((sid, meta, None))
                continue
            real = [f for f in fired if not f.startswith("ANALYSIS-ERROR")]
            meta["caught_by"] = fired
            meta["caught"] = bool(real)
            json.dump(meta, open(mp, "w"), indent=1)
            print(f"{sid}: {'caught' if real else 'MISSED'} ({info}) " + "; ".join(sorted({re.search(r': (R[\d.a-z]+) ', f).group(1) for f in real})))
            rows.append((sid, meta, fired))
    if not args:
        with open(os.path.join(VERIF, "seeded", "TABLE.md"), "w") as f:
            f.write("| seeded change | property | what it changes (first line of the sub-agent's note) | when it arrived | caught by (now) |\n|---|---|---|---|---|\n")
            for sid, meta, fired in rows:
                first = next((ln.strip("# ").strip() for ln in meta.get("breaks", "").splitlines() if ln.strip()), "")
                rules = sorted({m.group(1) for x in (fired or []) for m in [re.search(r": (R[\d.a-z]+) ", x)] if m})
                arr = meta.get("caught_at_arrival")
                arr_txt = "not recorded" if arr is None else ("missed" if not arr else "caught: " + ", ".join(sorted({m.group(1) for x in arr for m in [re.search(r": (R[\d.a-z]+) ", x)] if m})))
                f.write(f"| {sid} | {meta['property']} | {first[:140]} | {arr_txt} | {', '.join(rules) if rules else '**missed**' if fired is not None else 'n/a'} |\n")


if __name__ == "__main__":
    main()
