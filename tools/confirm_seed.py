#!/usr/bin/env python3
"""Confirm a sub-agent's seeded change in its scratch worktree and file it under /verif/seeded/<ID>-<n>/.
   usage: tools/confirm_seed.py C07 1      (uses /tmp/seed/C07 and /tmp/seed/C07-out/1)"""
import json, os, re, shutil, subprocess, sys
pid, n = sys.argv[1], sys.argv[2]
wt, out = f"/tmp/seed/{pid}", f"/tmp/seed/{pid}-out/{n}"
patch, demo = f"{out}/patch.diff", f"{out}/demo.py"
def sh(*a, **k): return subprocess.run(a, capture_output=True, text=True, **k)
env = {**os.environ, "PYTHONPATH": "."}
assert sh("git", "-C", wt, "status", "--porcelain", "--untracked-files=no").stdout.strip() == "", "worktree dirty"
res = {"property": pid, "n": n}
r = sh("/venv/bin/python", demo, cwd=wt, env=env); res["demo_clean_exit"] = r.returncode
r = sh("git", "-C", wt, "apply", patch); assert r.returncode == 0, r.stderr
try:
    r = sh("/venv/bin/python", "-m", "compileall", "-q", "dulwich", cwd=wt); res["compiles"] = r.returncode == 0
    r = sh("/venv/bin/python", demo, cwd=wt, env=env); res["demo_changed_exit"] = r.returncode
    res["demo_changed_tail"] = (r.stdout + r.stderr).strip().splitlines()[-3:]
    r = sh("/venv/bin/python", "-m", "pytest", "-q", "-p", "no:cacheprovider", "-n", "10", "--timeout=900", "tests", cwd=wt)
    tail = r.stdout.strip().splitlines()[-1] if r.stdout.strip() else ""
    failed = sorted(set(re.findall(r"^FAILED (\S+)", r.stdout, re.M)))
    known = {"tests/test_sparse_patterns.py::ApplyIncludedPathsTests::test_local_modifications_ioerror",
             "tests/compat/test_index.py::IndexV4CompatTestCase::test_index_v4_skip_hash"}
    res["tests_summary"] = tail
    res["tests_unexpected_failures"] = [f for f in failed if f not in known]
finally:
    sh("git", "-C", wt, "checkout", "--", ".")
ok = res["demo_clean_exit"] == 0 and res.get("demo_changed_exit") == 1 and res.get("compiles") and not res["tests_unexpected_failures"]
res["confirmed"] = bool(ok)
res["checks_fired"] = []
dst = f"/verif/seeded/{pid}-{n}"
if ok:
    os.makedirs(dst, exist_ok=True)
    shutil.copy(patch, dst + "/patch.diff"); shutil.copy(demo, dst + "/demo.py")
    notes = open(f"{out}/notes.md").read() if os.path.exists(f"{out}/notes.md") else ""
    meta = {"property": pid, "breaks": notes[:1500], "needs_to_manifest": "see 'breaks' (sub-agent notes)",
            "what_was_run": {"demo on unchanged worktree": f"exit {res['demo_clean_exit']}", "demo with the change": f"exit {res['demo_changed_exit']}",
                             "pytest -n 10 tests (whole tests/ directory, change applied)": res["tests_summary"],
                             "unexpected test failures": res["tests_unexpected_failures"]},
            "caught_by": res["checks_fired"], "caught": bool(res["checks_fired"])}
    json.dump(meta, open(dst + "/meta.json", "w"), indent=1)
    # which checks catch it: in a throw-away worktree of /repo's HEAD (never /repo itself); rewrites caught_by in meta.json
    r = sh("/usr/bin/python3", "/verif/tools/sweep_seeds.py", f"{pid}-{n}")
    res["checks_fired"] = json.load(open(dst + "/meta.json")).get("caught_by", [])
    res["sweep"] = r.stdout.strip()[-300:]
    meta = json.load(open(dst + "/meta.json"))
    meta["caught_at_arrival"] = [x for x in meta.get("caught_by", [])]     # never rewritten by later sweeps
    json.dump(meta, open(dst + "/meta.json", "w"), indent=1)
print(json.dumps(res, indent=1))
