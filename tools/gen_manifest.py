#!/venv/bin/python
"""Regenerates /verif/MANIFEST.json from the table below (keeps the manifest valid at all times)."""
import json
import os

HERE = os.path.dirname(os.path.dirname(os.path.abspath(__file__)))

NOTE = ("Trusted base: Python semantics as modelled by sa/cfg.py (statement CFG with exception edges), name+hierarchy "
        "callee resolution, and the role tables in the rule module (confirmed by reading the pinned tree). Decides "
        "structural necessary conditions, not the behaviour; see DESIGN.md section 3 for 'decides / does not decide'.")

CHECKS = {
    "C02": dict(
        text="Static: only the writer/reader LAYOUT agreement of the pack index formats and the trailer is decided: ordered "
             "writer sections (format/width/byte order) vs reader table offsets folded to linear forms, the 2**31 "
             "large-offset threshold/mask/scale on both sides (a branch no test reaches: it needs offsets >= 2 GiB), trailer "
             "slices, that Pack.data never keeps data that failed its check, the object-header bit-field table and the "
             "OFS_DELTA offset-varint form on both sides (writer vs decoders), and the direction of OFS_DELTA distances: the "
             "writer stores own offset - base offset only for a base already written, every reader subtracts. Round-trip "
             "equality, delta chains and zlib framing are NOT decided.",
        technique="writer/reader table extraction with symbolic (linear) offset folding; bit-field/varint form agreement; "
                  "sibling agreement on OFS_DELTA direction; typestate on the data cache",
        ref="3 C02"),
    "C03": dict(
        text="Static: safety half of both delta decoders and constant agreement of both encoders: bound test dominates every "
             "byte read, post-conditions dominate the return (Python CFG, Rust token stream), no allocation sized by a "
             "declared value unless bounded by supplied data (taint over the Rust function), no unwrap/unbounded shift/i32 "
             "midpoint on input-derived data, running output length tested before each append. apply(create(b,t),b)==t is "
             "NOT decided.",
        technique="dominance of bound tests; taint source->sink over an own Rust lexer/item parser; constant agreement",
        ref="3 C03"),
    "C04": dict(
        text="Static: containment structure of every ingestion path: integrity event before visibility, abort pairing of every "
             "add_pack() user on all exception edges, completeness of the rollback in _complete_pack, no store mutation while "
             "the incoming pack is still being consumed, an output bound at every inflate site with sibling agreement, cycle "
             "guard on the ref-delta chain walk, checksums verified on read. Does not decide that every corrupt byte is "
             "noticed nor promptness.",
        technique="must-precede, release-on-exit typestate, never-before, sibling cross-check on statement CFG",
        ref="3 C04"),
    "C05": dict(
        text="Static, NARROW: structural necessary conditions only - wire-supplied "
             "wants are dominated by a membership test against the advertised set, a thin pack is completed before it "
             "is installed, and MissingObjectFinder expands every edge kind (commit->tree, tree->entries except gitlinks, "
             "tag->object) and marks objects done when handed out. Whether the transferred object set is the complete and minimal closure is a relation over "
             "histories and is NOT decided by this family.",
        technique="sanitizer dominance (membership test), must-precede on statement CFG, edge-kind exhaustiveness",
        ref="3 C05"),
    "C11": dict(
        text="Static: index entry layout agreement (struct formats, read size == calcsize, padding, extended flags) between "
             "reader and writer, boundedness of every operand packed into the 16-bit flags and the 32-bit stat fields the "
             "statement names, checksum verified on read and written on all paths, sort order and extension preservation. "
             "Covers field widths for all values (names of 0xFFF+ bytes, 64-bit sizes) that no fixture exercises. Does not "
             "decide v4 prefix compression arithmetic.",
        technique="struct-format table agreement; abstract boundedness of bit-field operands; must-pass-through",
        ref="3 C11"),
    "C15": dict(
        text="Static: substitution table (every import-time substitution pairs a Python def with a registered Rust "
             "#[pyfunction]), binding of every in-repo call site under both signatures, panic/allocation rules over all three "
             "crates, shared constants. Result equality over all inputs is a two-program relation and is NOT decided.",
        technique="Python/Rust sibling cross-check: signature binding, constant tables, Rust token-level lint",
        ref="3 C15"),
    "C01": dict(
        text="Static: dirty-flag discipline (every store to an attribute that _serialize reads - computed by def-use from the "
             "serializer - is paired on all paths with an invalidation of the cached id, fresh receivers exempt by typestate), "
             "dominance of the dirty-flag test over the cached hash, header-table agreement between the Commit/Tag "
             "serializers and parsers (unknown headers kept/refused, parsed attributes == serialised attributes), single "
             "canonical tree ordering with Python/Rust key agreement. Quantifies over every setter and edit order; does not "
             "decide parse(serialise(x)) == x nor byte equality with C git.",
        technique="typestate on dirty flag + def-use of the serializer; writer/reader table agreement; Python/Rust sibling check",
        ref="3 C01"),
    "C10": dict(
        text="Static: ordering new-pack-before-delete, provenance of every deletion in gc.py from find_unreachable_objects "
             "through the grace gate, completeness of roots and edges of the reachability walk, sibling agreement that every "
             "pack dereference in a reader tolerates PackFileDisappeared, and rescan-after-loose-miss before a final miss. "
             "The racing interleaving a test would need is replaced by a path property. Does not decide reachability over "
             "runtime graphs.",
        technique="never-before ordering, provenance dataflow with gate dominance, sibling cross-check (contradiction rule)",
        ref="3 C10"),
    "C14": dict(
        text="Static: fallback and validation structure around each accelerator: a commit-graph miss falls back to the store "
             "at every use site and the graph only replaces the default parents function; a MIDX hit dereferences the pack "
             "before answering (contradiction rule between get_raw and contains_packed); Pack.bitmap is checksum-bound and "
             "every access tolerates a missing file; the commit-graph writer references every encoding the reader "
             "interprets; the packed-refs cache is identity-checked. Does not decide equality of answers over histories.",
        technique="sibling cross-check of fallback structure, must-pass-through, writer/reader constant coverage",
        ref="3 C14"),
    "C13": dict(
        text="Static: taint analysis with implicit flows and origin tracking over graph.py and walk.py: no continue/break/"
             "return/skipped push of a traversal is control dependent on a test reading a commit timestamp (walk.py: unless "
             "the originating test is guarded by the since/until/exclusion option the statement exempts). Quantifies over "
             "all clocks at once, where a test samples a few timestamp assignments. Plus: merge-base candidates pass the "
             "redundancy filter on every path, and every timestamp comparison in walk.py that prunes does so only on a "
             "strict inequality (ties keep walking). Does not decide that the LCA flag propagation is right for every "
             "exploration order.",
        technique="taint with implicit flows (control dependence) and origin tracking, field-sensitive access paths; "
                  "must-pass-through; ordering (tie) rule on comparisons",
        ref="3 C13"),
    "C16": dict(
        text="Static: partial evaluation of every backend's set_if_equals/remove_if_equals under the fact old_ref is None "
             "(no `return False` reachable), totality of the conditional methods, ZERO_SHA defaulting agreed by all sibling "
             "backends, override completeness and signature compatibility against the abstract base, the "
             "git-check-ref-format rule table extracted from check_ref_format, packed-refs writer/reader grammar agreement. "
             "Does not decide equality with the map model over operation sequences.",
        technique="partial evaluation under a fact; sibling cross-check; table extraction vs frozen reference",
        ref="3 C16"),
    "C17": dict(
        text="Static: taint from tree paths and index keys through the tree-path -> fs-path conversions to every mutating "
             "file-system sink (helpers summarised to depth 3, sinks attributed by reaching definitions); both sanitizers "
             "(validate_path, verify_leading_dirs) must dominate, for the same path. Plus symlink-at-leaf, mode "
             "canonicalisation and validator-not-optional rules. Covers every site and path; does not decide that the "
             "element validators reject exactly the dangerous spellings.",
        technique="taint / sanitizer dominance with reaching definitions and interprocedural sink summaries",
        ref="3 C17"),
    "C19": dict(
        text="Static: bound of the encoded length field by a dominating raising test, coherence of framing constants, "
             "decoder ordering (flush before <4, payload only for size>=4, obtained length compared), a single strict "
             "hex length parser (who-may), non-emptiness before the side-band channel byte, flush sentinel by identity. "
             "Does not decide reassembly under arbitrary read chunking.",
        technique="constant-table agreement, dominance of bound tests, who-may-call",
        ref="3 C19"),
    "C20": dict(
        text="Static: the writer's escape table is extracted from _escape_value and must be inverted by the reader's "
             "_ESCAPE_TABLE; every byte the reader's dispatch treats specially outside quotes (anywhere or at an edge, "
             "including what bytes.strip() removes) must be escaped or force quoting in _format_string; subsection escapes "
             "and escape-awareness of every quote-toggling scanner. Covers all 256 bytes at once - exactly where the "
             "existing hypothesis test's alphabet stops. Does not decide what git itself reads.",
        technique="writer/reader constant-table extraction and set relations; sibling scanner cross-check",
        ref="3 C20"),
    "C06": dict(
        text="Static: RESULT-USED over every conditional compare-and-swap in the push-serving functions (found by role), "
             "must-pass-through from each CAS's failure and exception outcome to the per-ref status emission, dominance of a "
             "store-membership test over every wire-commanded ref write, and presence of ref-state reads in the atomic "
             "validation. Covers all paths of the status logic at once; a happy-path test cannot see a dropped CAS result. "
             "Does not decide racing pushers beyond R06.4b (known finding) nor status round trip through the client parser.",
        technique="result-used dataflow + must-pass-through/dominance on statement CFG",
        ref="3 C06"),
    "C08": dict(
        text="Static: DEF-INSIDE (every ref value feeding a test inside a ref's lock region is read inside the region, via "
             "reaching definitions), lock ownership of every loose-ref removal, SAME-DEF between the CAS's expected value "
             "and the new commit's ancestry (read-site labels through reaching definitions), package-wide RESULT-USED of "
             "conditional CAS calls. These are the stale-read / double-read / dropped-result shapes whose losing "
             "interleaving a test would have to hit. Linearizability over schedules is not decided.",
        technique="reaching definitions (def-inside-region, same-def labels), result-used, lock-region dominance",
        ref="3 C08"),
    "C09": dict(
        text="Static: order of effects on every CFG path (MUST-PRECEDE / NEVER-BEFORE): objects before refs, "
             "flush/fsync/close before rename before index before visibility in _complete_pack, new pack before deletions "
             "in repack/pack_loose_objects, packed-refs committed before loose refs go, packed entry before loose file on "
             "delete, grace test before prune. A crash point is a position between two effects; the final state a test "
             "asserts on is identical for both orders. Does not enumerate crash points at run time.",
        technique="must-precede / never-before ordering of effect events on statement CFG",
        ref="3 C09"),
    "C07": dict(
        text="Static: typestate over the CFG of _GitFile (O_EXCL acquisition, flush/fsync/close before rename, no unlink "
             "after a successful rename, release on every failing path) and RELEASE-ON-EXIT over every write-mode "
             "GitFile user in the package (all paths, including every exception edge - which a test would need a fault "
             "injected at every statement to cover). Does not decide mutual exclusion under schedules (kernel O_EXCL).",
        technique="typestate / release-on-exit over statement CFG with exception edges; who-may-write layering",
        ref="3 C07"),
}

# clauses added after the two seeding rounds (DESIGN.md section 7); appended to the text above
ADDED = {
    "C01": "Also: explicit-format hash never served from the cache, header folding prefix agreement, numeric fields tested with "
           "`is None` (0 is a value), header emission order = git's.",
    "C02": "Also: unused zlib tail trimmed only under a non-emptiness test (x[:-0]), exact stream reads use read_all with the "
           "pre-drain buffer length, crc32 updates continue the running value.",
    "C03": "Also: no early exit in the copy-op byte loops, size-varint encoder idiom with the exact loop bound, 'no base' "
           "decided by identity (an empty base is a base).",
    "C04": "Also: inflate bound is what remains, packed-refs cache key recorded only after a complete parse, every read "
           "callable of the input-size cap counts, temporary pack files removed on every failing exit.",
    "C05": "Also: the have side - gitlink entries are never assumed present on the peer, a commit is announced as have only "
           "after its parents were read from the local store.",
    "C06": "Also: files backend answers True only when the effect happened (no swallowed unlink/write failure), the "
           "expected-old argument of a conditional CAS cannot be None, the atomic decision flag accumulates.",
    "C07": "Also: a failed acquisition unlinks nothing, the ownership flag agrees with the lock state on every exit of "
           "close()/abort(), no early exit out of `with GitFile(.., 'wb')` before a write (it would commit an empty file).",
    "C08": "Also: data written through the lock handle is read inside the lock region, add_if_new checked where it is the "
           "twin of a checked set_if_equals, the lock protocol clauses of C07 (shared).",
    "C09": "Also: directory rescan before the pack rename, flush/fsync/close before rename in the lock class (shared with C07).",
    "C10": "Also: repack deletes only what it enumerated before writing the new pack (same snapshot), add_object freshens or "
           "writes, refs are read loose first and packed second, lookups retry after a pack vanished.",
    "C11": "Also: bit-field algebra of the flags word, v4 prefix varint = git's offset varint, (sec, nsec) from one integer.",
    "C13": "Also: the redundancy filter's walk is complete, walk.py has one source of ancestry (the walker's get_parents), "
           "ParentsProvider consults grafts/shallows first (shared with C14).",
    "C14": "Also: XOR-compressed bitmaps resolved against the resolved base, incomplete bitmap lookups end in the fallback "
           "(never a partial answer), both reachability providers mean the same closure.",
    "C15": "Also: validation drift of the twins against a confirmed table (which local names each rejection depends on), the "
           "delta encoder tables of C03 (shared).",
    "C16": "Also: resolved name used after symref resolution, empty-parent cleanup on every successful delete, unconditional "
           "operations always take effect, symref depth = git's.",
    "C17": "Also: transition helpers decide on the lstat result, verify_leading_dirs skips only the leading verified run, "
           "containment decided per path component (no commonprefix).",
    "C19": "Also: capability lists split on exactly the writer's separator, only an empty length prefix is a hang-up, exact "
           "stream reads (shared with C02), decoder idioms for side-band and parser.",
    "C20": "Also: only escapes git knows, normalised keys compared with normalised keys, subsection presence by identity, the "
           "two representations of the multi-value store updated together.",
}

ADDED3 = {
    "C01": "Round 3: exact separator discipline in the object parsers (no splitlines / argument-less split).",
    "C02": "Round 3: appended thin-pack bases enter the trailer digest, stored deltas reused only behind a base membership test, chain walk re-binds the offset.",
    "C03": "Round 3: size header ends on a clear continuation bit, copy size 0 = 0x10000 (both twins).",
    "C04": "Round 3: sentinel scans terminate on an empty read, packs opened only as .pack/.idx pairs.",
    "C05": "Round 3: the pusher never consults the receiver's object store, ext_refs unfiltered, shallow minus not_shallow.",
    "C06": "Round 3: atomic refused when not advertised on every transport, validation covers every command, refs only through CAS.",
    "C07": "Round 3: closing wrappers, no in-place write under the lock, FileLocked never swallowed outside file.py.",
    "C08": "Round 3: loose-before-packed removal order and loose-then-packed read order claimed here too (shared with C09/C10).",
    "C09": "Round 3: objects before the index in the staging functions; lock commit/abort typestate and FileLocked discipline shared with C07.",
    "C10": "Round 3: gc.pruneExpire never None, MIDX readers survive a vanished pack (shared with C14).",
    "C11": "Round 3: name length by mask, every index write passes version and extensions.",
    "C13": "Round 3: flag map of _find_lcas is monotone, exclusion propagation in the walker complete.",
    "C14": "Round 3: bitmaps combined within one pack only, commit-graph parents filtered like object parents.",
    "C15": "Round 3: bisect range convention and Tree entry shape agree between the twins.",
    "C16": "Round 3: add_if_new decides through the merged read and the resolved value; namespace views answer in their own names.",
    "C17": "Round 3: symlink arm removes before linking, validated patch path = path acted on, _is_ntfs_dotgit skips the leading run only, "
           "LEAF SYMLINK: every write-mode open of a work-tree path behind a non-following symlink decision (found F17.8/F17.9).",
    "C19": "Round 3: want-line tail stripped by the reader, BufferedPktLineWriter.flush never skips buffered bytes.",
    "C20": "Round 3: regex scanners escape-aware, LF-only line framing, un-escaping in one tokenising pass.",
}
for _k, _v in ADDED3.items():
    ADDED[_k] = (ADDED.get(_k, "") + " " + _v).strip()

ADDED4 = {
    "C01": "Hunting round: timezone setters clear the parsed '-0000' flag; a None message is serialised without the separator (known finding).",
    "C02": "Hunting round: thin-pack completion in pack order, objects listed twice written once.",
    "C03": "Hunting round: copy offsets of 2^32 and more never encoded (known finding, both twins); the empty-payload guard decided per object type.",
    "C04": "Hunting round: a truncated loose object is an error (zlib eof tested before the data is returned).",
    "C06": "Hunting round: per-ref exceptions of the ref store become that ref's status; the in-process push checks the new value is present.",
    "C07": "Hunting round: locked_index releases on a failed enter, commits inside the aborting try and re-raises.",
    "C08": "Hunting round: locked_ref commits only when something was written; the 'is it packed' decision of a deletion under packed-refs.lock (known finding).",
    "C11": "Hunting round: cache times masked to 32 bits; the extension loop never un-reads checksummed bytes.",
    "C13": "Hunting round: independent() removes duplicates first; update_shallow keeps file and grafts together; octopus base maximal; excluded tags peeled.",
    "C14": "Hunting round: generated commit graph closed under parents; MIDX large-offset escape only with LOFF; empty packed-refs reads as none; pack_refs never packs symrefs.",
    "C16": "Hunting round: add_if_new looks the resolved name up; every ref-file write removes empty directories in the way and creates parents.",
    "C17": "Hunting round: empty-parent removal bounded by containment; path-restricted checkout refuses bare repositories; submodule paths lstat-checked.",
    "C19": "Hunting round: length prefix bounded above where parsed; empty capability list; a status report cut inside a pkt-line is an error.",
    "C20": "Hunting round: has_section folds case like its siblings; the value reader strips only git's whitespace.",
}
for _k, _v in ADDED4.items():
    ADDED[_k] = (ADDED.get(_k, "") + " " + _v).strip()

ADDED5 = {
    "C04": "Session 5: every PackInflater consumer outside the object stores (bundles) verifies the trailer and materialises all objects before the first add_object; validation before on-disk visibility (known finding).",
    "C05": "Session 5: v2 shallow-info section consumed before the side-band stream (both repair shapes accepted); the client's shallow lines bound what a have promises.",
    "C08": "Session 5: R08.3 compares only reads of the ref the compare-and-swap updates.",
    "C09": "Session 5: objects before the shallow boundary moves (install precedes every update_shallow; the in-process walker's callback re-bound); a ref is written once, with the commit created for it (no parking value).",
    "C10": "Session 5: gc roots = the per-worktree refs of every worktree; the grace period re-applied after the long steps, right before destroying.",
    "C11": "Session 5: the index loader stores exact keys (never through the mutator that redirects to a normalised key).",
    "C07": "Session 5: reftable tables unlinked only after the tables.list that no longer names them has been committed.",
    "C14": "Session 5: every caller asks generate_commit_graph for a closed graph (known finding: reachable=False, pinned by a test).",
    "C20": "Session 5: settings merged from [include]d files never reach write_to_file (known finding F20.8).",
    "C16": "Session 5: every ref-file write refuses names colliding with a PACKED ref, upwards and downwards; reftable suffix_and_type written and read with one total varint codec.",
}
for _k, _v in ADDED5.items():
    ADDED[_k] = (ADDED.get(_k, "") + " " + _v).strip()

NOT_APPLICABLE = {
    "C12": "Inverse-ness of build/flatten and soundness/completeness of a tree diff are relations over runtime tree "
           "values; the only clause visible in the code's shape (entries always serialised through the one canonical "
           "ordering, Python and Rust keys agreeing) is decided as R01.4 under C01.",
    "C18": "Status exactness relates three runtime states (HEAD tree, index, directory contents) over edit sequences; "
           "no ordering, pairing, layering or table clause of it is a necessary condition that can be named, and a "
           "static proxy would be a runtime test in disguise.",
}

ALL = [f"C{n:02d}" for n in range(1, 21)]


def main():
    checks = []
    for pid in ALL:
        if pid not in CHECKS:
            continue
        c = CHECKS[pid]
        checks.append({
            "property_id": pid,
            "quick_cmd": f"./check {pid} --tier quick",
            "thorough_cmd": f"./check {pid} --tier thorough",
            "evidence_file": f"/verif/evidence/{pid}.json",
            "replay_cmd_template": f"./check {pid} --replay {{path}}",
            "engine": "sa",
            "level_claimed": {"category": "other", "text": c["text"] + (" " + ADDED[pid] if pid in ADDED else ""), "design_ref": c["ref"]},
            "level_note": c.get("note", NOTE),
            "technique": c["technique"],
        })
    na = []
    for pid in ALL:
        if pid in CHECKS:
            continue
        na.append({"property_id": pid,
                   "reason": NOT_APPLICABLE.get(pid, "not claimed in this revision: the rule module for this property "
                                                     "is not written yet (see DESIGN.md section 7 for the order of work)")})
    manifest = {
        "version": 1,
        "setup_cmd": "true",
        "hooks": {
            "guard": "DULWICH_VERIF",
            "enable": "none needed: the checks are static and read /repo's working tree; no instrumentation exists",
            "baseline_off_cmd": "cd /repo && /venv/bin/python -m pytest -ra -q -p no:cacheprovider --timeout=900 "
                                "--continue-on-collection-errors",
            "source_commits": [],
            "add_only": True,
        },
        "engines": [{
            "name": "sa",
            "path": "/verif/sa",
            "serves_properties": [c["property_id"] for c in checks],
            "kind_free_text": "repository-specific static analysis over Python ast: statement CFG with exception edges, "
                              "typestate products, must-pass-through / never-before ordering, reaching definitions, "
                              "taint, table extraction, partial evaluation, sibling cross-checks; own Rust lexer for crates/; "
                              "canonical AST form and alpha-conversion of locals at load time (spelling-independent rules)",
        }],
        "checks": checks,
        "not_applicable": na,
        "notes": "All checks are static (family: static analysis). Exit 0 = all obligations discharged (KNOWN-FINDING "
                 "lines allowed), 1 = VIOLATION, 2 = ANALYSIS-ERROR (an anchor vanished or an extractor met an unknown "
                 "shape). Genuine defects found on the pinned tree are repaired by 'fix:' commits in /repo or listed in "
                 "known_findings.json.",
    }
    with open(os.path.join(HERE, "MANIFEST.json"), "w") as f:
        json.dump(manifest, f, indent=1)
    print("wrote MANIFEST.json with", len(checks), "checks,", len(na), "not applicable")


if __name__ == "__main__":
    main()
