#!/venv/bin/python
"""Regenerates /verif/MANIFEST.json from the table below (keeps the manifest valid at all times)."""
import json
import os

HERE = os.path.dirname(os.path.dirname(os.path.abspath(__file__)))

NOTE = ("Trusted base: Python semantics as modelled by sa/cfg.py (statement CFG with exception edges), name+hierarchy "
        "callee resolution, and the role tables in the rule module (confirmed by reading the pinned tree). Decides "
        "structural necessary conditions, not the behaviour; see DESIGN.md section 3 for 'decides / does not decide'.")

CHECKS = {
    "C07": dict(
        text="Static: typestate over the CFG of _GitFile (O_EXCL acquisition, flush/fsync/close before rename, no unlink "
             "after a successful rename, release on every failing path) and RELEASE-ON-EXIT over every write-mode "
             "GitFile user in the package (all paths, including every exception edge - which a test would need a fault "
             "injected at every statement to cover). Does not decide mutual exclusion under schedules (kernel O_EXCL).",
        technique="typestate / release-on-exit over statement CFG with exception edges; who-may-write layering",
        ref="3 C07"),
}

NOT_APPLICABLE = {
    "C12": "Inverse-ness of build/flatten and soundness/completeness of a tree diff are relations over runtime tree "
           "values; the only clause visible in the code's shape (entries always serialised through the one canonical "
           "ordering, Python and Rust keys agreeing) is decided as R01.4 under C01.",
    "C18": "Status exactness relates three runtime states (HEAD tree, index, directory contents) over edit sequences; "
           "no ordering, pairing, layering or table clause of it is a necessary condition that can be named, and a "
           "static proxy would be a runtime test in disguise.",
}

ALL = [f"C{n:02d}" for n in range(1, 21)]


def main():
    checks = []
    for pid in ALL:
        if pid not in CHECKS:
            continue
        c = CHECKS[pid]
        checks.append({
            "property_id": pid,
            "quick_cmd": f"./check {pid} --tier quick",
            "thorough_cmd": f"./check {pid} --tier thorough",
            "evidence_file": f"/verif/evidence/{pid}.json",
            "replay_cmd_template": f"./check {pid} --replay {{path}}",
            "engine": "sa",
            "level_claimed": {"category": "other", "text": c["text"], "design_ref": c["ref"]},
            "level_note": c.get("note", NOTE),
            "technique": c["technique"],
        })
    na = []
    for pid in ALL:
        if pid in CHECKS:
            continue
        na.append({"property_id": pid,
                   "reason": NOT_APPLICABLE.get(pid, "not claimed in this revision: the rule module for this property "
                                                     "is not written yet (see DESIGN.md section 7 for the order of work)")})
    manifest = {
        "version": 1,
        "setup_cmd": "true",
        "hooks": {
            "guard": "DULWICH_VERIF",
            "enable": "none needed: the checks are static and read /repo's working tree; no instrumentation exists",
            "baseline_off_cmd": "cd /repo && /venv/bin/python -m pytest -ra -q -p no:cacheprovider --timeout=900 "
                                "--continue-on-collection-errors",
            "source_commits": [],
            "add_only": True,
        },
        "engines": [{
            "name": "sa",
            "path": "/verif/sa",
            "serves_properties": [c["property_id"] for c in checks],
            "kind_free_text": "repository-specific static analysis over Python ast: statement CFG with exception edges, "
                              "typestate products, must-pass-through / never-before ordering, reaching definitions, "
                              "taint, table extraction, partial evaluation, sibling cross-checks; own Rust lexer for crates/",
        }],
        "checks": checks,
        "not_applicable": na,
        "notes": "All checks are static (family: static analysis). Exit 0 = all obligations discharged (KNOWN-FINDING "
                 "lines allowed), 1 = VIOLATION, 2 = ANALYSIS-ERROR (an anchor vanished or an extractor met an unknown "
                 "shape). Genuine defects found on the pinned tree are repaired by 'fix:' commits in /repo or listed in "
                 "known_findings.json.",
    }
    with open(os.path.join(HERE, "MANIFEST.json"), "w") as f:
        json.dump(manifest, f, indent=1)
    print("wrote MANIFEST.json with", len(checks), "checks,", len(na), "not applicable")


if __name__ == "__main__":
    main()
