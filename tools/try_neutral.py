#!/usr/bin/env python3
"""Evaluate a behaviour-preserving refactoring written by a sub-agent (a NEUTRAL change): in a throw-away worktree of
/repo's HEAD apply it, (optionally) run the whole tests/ directory, run every check; any VIOLATION or ANALYSIS-ERROR is
a false alarm of the machinery.  With --file the patch is stored as /verif/seeded-neutral/<ID>-<n>/.

usage: tools/try_neutral.py [--tests] [--file] C07 n1       (uses /tmp/seed/C07-out/n1/patch.diff)
       tools/try_neutral.py --resweep                        (re-run the checks on everything in seeded-neutral/)"""
import concurrent.futures as cf
import json
import os
import re
import shutil
import subprocess
import sys
import tempfile

VERIF = os.path.dirname(os.path.dirname(os.path.abspath(__file__)))
KNOWN_FAIL = {"tests/test_sparse_patterns.py::ApplyIncludedPathsTests::test_local_modifications_ioerror",
              "tests/compat/test_index.py::IndexV4CompatTestCase::test_index_v4_skip_hash"}


def sh(*a, **k):
    return subprocess.run(a, capture_output=True, text=True, **k)


def evaluate(patch, tests=False):
    wt = tempfile.mkdtemp(prefix="neutral-", dir="/tmp")
    os.rmdir(wt)
    ev = tempfile.mkdtemp(prefix="neutral-ev-", dir="/tmp")
    res = {}
    try:
        r = sh("git", "-C", "/repo", "worktree", "add", "--detach", wt, "HEAD")
        if r.returncode:
            return {"error": "worktree: " + r.stderr[-200:]}
        r = sh("git", "-C", wt, "apply", patch)
        if r.returncode:
            return {"error": "patch does not apply: " + r.stderr[-200:]}
        r = sh("/venv/bin/python", "-m", "compileall", "-q", "dulwich", cwd=wt)
        res["compiles"] = r.returncode == 0
        if tests:
            r = sh("/venv/bin/python", "-m", "pytest", "-q", "-p", "no:cacheprovider", "-n", "8", "--timeout=900", "tests", cwd=wt)
            failed = sorted(set(re.findall(r"^FAILED (\S+)", r.stdout, re.M)))
            res["tests_summary"] = r.stdout.strip().splitlines()[-1] if r.stdout.strip() else ""
            res["tests_unexpected_failures"] = [f for f in failed if f not in KNOWN_FAIL]
        r = sh(os.path.join(VERIF, "check"), "all", env={**os.environ, "VERIF_REPO": wt, "VERIF_EVIDENCE_DIR": ev, "VERIF_SCRATCH_EVIDENCE": "1"})
        res["check_exit"] = r.returncode
        res["alarms"] = [re.sub(r"\s+", " ", ln.strip())[:300].replace(wt + "/", "") for ln in r.stdout.splitlines()
                         if re.match(r"^(dulwich|crates)/.*: R\d", ln) or ln.startswith("ANALYSIS-ERROR")]
        return res
    finally:
        sh("git", "-C", "/repo", "worktree", "remove", "--force", wt)
        sh("rm", "-rf", wt, ev)


def main():
    args = sys.argv[1:]
    if args[:1] == ["--resweep"]:
        d = os.path.join(VERIF, "seeded-neutral")
        ids = sorted(x for x in os.listdir(d) if os.path.isfile(os.path.join(d, x, "patch.diff")))
        bad = 0
        with cf.ThreadPoolExecutor(8) as ex:
            for sid, res in zip(ids, ex.map(lambda s: evaluate(os.path.join(d, s, "patch.diff")), ids)):
                al = res.get("alarms", [res.get("error")])
                print(f"{sid}: {'silent' if not al and res.get('check_exit') == 0 else 'ALARM ' + '; '.join(al)[:400]}")
                bad += bool(al) or res.get("check_exit") != 0
                mp = os.path.join(d, sid, "meta.json")
                meta = json.load(open(mp))
                meta["alarms_now"] = al
                json.dump(meta, open(mp, "w"), indent=1)
        sys.exit(1 if bad else 0)
    tests = "--tests" in args
    file_ = "--file" in args
    args = [a for a in args if not a.startswith("--")]
    pid, n = args
    out = f"/tmp/seed/{pid}-out/{n}"
    res = evaluate(f"{out}/patch.diff", tests)
    res.update({"property": pid, "n": n})
    ok_neutral = res.get("compiles") and not res.get("tests_unexpected_failures") and "error" not in res
    if file_ and ok_neutral:
        dst = os.path.join(VERIF, "seeded-neutral", f"{pid}-{n}")
        os.makedirs(dst, exist_ok=True)
        shutil.copy(f"{out}/patch.diff", dst + "/patch.diff")
        notes = open(f"{out}/notes.md").read() if os.path.exists(f"{out}/notes.md") else ""
        json.dump({"property": pid, "what": notes[:1500], "tests": res.get("tests_summary"), "alarms_at_arrival": res.get("alarms", []),
                   "check_exit_at_arrival": res.get("check_exit")}, open(dst + "/meta.json", "w"), indent=1)
    print(json.dumps(res, indent=1))


if __name__ == "__main__":
    main()
