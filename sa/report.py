"""Obligations, known findings, evidence files, and the VIOLATION / KNOWN-FINDING / ANALYSIS-ERROR lines."""
from __future__ import annotations

import json
import os
import time
from dataclasses import dataclass, field, asdict

from .load import AnalysisError

VERIF = os.path.dirname(os.path.dirname(os.path.abspath(__file__)))
KNOWN_FILE = os.path.join(VERIF, "known_findings.json")


@dataclass
class Ob:
    rule: str
    file: str
    func: str
    key: str
    ok: bool
    detail: str = ""
    line: int = 0
    witness: list = field(default_factory=list)

    def ident(self):
        return (self.rule, self.file, self.func, self.key)


def load_known() -> list[dict]:
    if not os.path.exists(KNOWN_FILE):
        return []
    with open(KNOWN_FILE) as f:
        data = json.load(f)
    return [e for e in data.get("findings", []) if e.get("status", "known") == "known"]


class Report:
    def __init__(self, prop: str, tier: str = "quick", seed: int = 0, quiet: bool = False):
        self.prop = prop
        self.tier = tier
        self.seed = seed
        self.quiet = quiet
        self.obs: list[Ob] = []
        self.notes: list[str] = []
        self.counts: dict[str, int] = {}
        self.rules: dict[str, str] = {}          # rule id -> one-line description (decides)
        self.not_decided: list[str] = []
        self.assumptions: list[str] = []
        self.t0 = time.time()
        self.floors: list[tuple[str, int]] = []
        self.extra: dict = {}

    # ---- recording
    def rule(self, rid: str, text: str):
        self.rules[rid] = text

    def ob(self, rule, file, func, key, ok, detail="", line=0, witness=None) -> Ob:
        o = Ob(rule, file, func, key, bool(ok), detail, line, list(witness or []))
        self.obs.append(o)
        return o

    def note(self, text: str):
        self.notes.append(text)

    def count(self, name: str, n: int = 1):
        self.counts[name] = self.counts.get(name, 0) + n

    def floor(self, rule: str, minimum: int):
        """A rule that matched fewer instances than were confirmed by hand is an analysis error."""
        self.floors.append((rule, minimum))
        have = sum(1 for o in self.obs if o.rule == rule)
        # a rule that already produced a failed obligation has a verdict: a low count then is the consequence of the
        # breakage (obligations that depend on the broken construct could not be formed), not a vacuous pass
        if have < minimum and not any((not o.ok) for o in self.obs if o.rule == rule):
            raise AnalysisError(f"rule {rule} matched {have} instance(s), floor is {minimum}: "
                                f"an anchor has vanished or changed shape")

    def n_obs(self, rule: str) -> int:
        return sum(1 for o in self.obs if o.rule == rule)

    # ---- verdict
    def classify(self):
        known = [e for e in load_known() if e.get("property") == self.prop]
        viol, kn = [], []
        for o in self.obs:
            if o.ok:
                continue
            hit = None
            for e in known:
                if (e["rule"] == o.rule and e["file"] == o.file and e["function"] == o.func
                        and e["key"] == o.key):
                    hit = e
                    break
            if hit is not None:
                kn.append((o, hit))
            else:
                viol.append(o)
        return viol, kn

    def finish(self, only: tuple | None = None) -> int:
        viol, kn = self.classify()
        if only is not None:
            viol = [o for o in viol if o.ident() == only]
        wall = time.time() - self.t0
        # evidence is only ever written for /repo itself; runs against scratch trees (self-test, seeded variants)
        # write elsewhere so that committed evidence always describes /repo
        from .load import REPO
        if os.path.realpath(REPO) == "/repo" and not os.environ.get("VERIF_SCRATCH_EVIDENCE"):
            ev_dir = os.path.join(VERIF, "evidence")
        else:
            ev_dir = os.environ.get("VERIF_EVIDENCE_DIR") or os.path.join("/tmp", "verif-evidence-scratch")
        os.makedirs(os.path.join(ev_dir, "replay"), exist_ok=True)
        out_lines = []
        seen_known = set()
        for o, e in kn:
            k = e.get("id", e["key"])
            if k in seen_known:
                continue
            seen_known.add(k)
            out_lines.append(f"KNOWN-FINDING: property={self.prop} {e.get('id', '')} {o.rule} {o.file}:{o.func} "
                             f"[{o.key}] {e.get('what', o.detail)}")
        replays = []
        for n, o in enumerate(viol, 1):
            rp = os.path.join(ev_dir, "replay", f"{self.prop}-{n}.json")
            with open(rp, "w") as f:
                json.dump({"property": self.prop, **asdict(o)}, f, indent=1)
            replays.append(rp)
            out_lines.append(f"{o.file}:{o.line}: {o.rule} {o.func} [{o.key}] {o.detail}"
                             + (f" witness-lines={o.witness}" if o.witness else ""))
            out_lines.append(f"VIOLATION property={self.prop} replay={rp}")
        # evidence
        distinct = {o.ident() for o in self.obs}
        samples = []
        per_rule_seen: dict[str, int] = {}
        for o in self.obs:
            c = per_rule_seen.get(o.rule, 0)
            if c < 3 or not o.ok:
                samples.append({"rule": o.rule, "file": o.file, "function": o.func, "construct": o.key,
                                "line": o.line, "verdict": "ok" if o.ok else "violated", "detail": o.detail,
                                "witness": o.witness})
            per_rule_seen[o.rule] = c + 1
        per_rule = {}
        for o in self.obs:
            d = per_rule.setdefault(o.rule, {"obligations": 0, "discharged": 0})
            d["obligations"] += 1
            d["discharged"] += 1 if o.ok else 0
        explanation = "Static analysis of /repo's current source (no execution). Rules and what each decides: " + \
            " | ".join(f"{k}: {v}" for k, v in sorted(self.rules.items()))
        if self.not_decided:
            explanation += " || NOT decided: " + "; ".join(self.not_decided)
        evidence = {
            "property_id": self.prop,
            "tier": self.tier,
            "seed": self.seed,
            "level": "other",
            "coverage": {
                "explanation": explanation,
                "obligations": len(self.obs),
                "discharged": sum(1 for o in self.obs if o.ok),
                "evaluations": max(len(self.obs), 1),
                "distinct_nontrivial": len(distinct),
                "rule": "one obligation per rule instance discovered in /repo's current source; distinct = distinct "
                        "(rule, file, function, construct) tuples; every instance is non-trivial in the sense that "
                        "it is a construct found in the analysed program, never a constant",
                "per_rule": per_rule,
                "floors": {r: m for r, m in self.floors},
                "counts": self.counts,
                "known_findings_matched": sorted({e.get("id", e["key"]) for _, e in kn}),
                "notes": self.notes,
                "samples": samples,
                "exhaustive": True,
                **self.extra,
            },
            "assumptions": self.assumptions,
            "wall_s": round(wall, 3),
            "violations": len(viol),
        }
        with open(os.path.join(ev_dir, f"{self.prop}.json"), "w") as f:
            json.dump(evidence, f, indent=1, sort_keys=False)
        if not self.quiet:
            print(f"[{self.prop}] tier={self.tier} rules={len(self.rules)} obligations={len(self.obs)} "
                  f"discharged={evidence['coverage']['discharged']} known-findings={len(seen_known)} "
                  f"violations={len(viol)} wall={wall:.2f}s")
            for r, d in sorted(per_rule.items()):
                print(f"  {r}: {d['discharged']}/{d['obligations']}  {self.rules.get(r, '')[:110]}")
            for ln in out_lines:
                print(ln)
        self.viol = viol
        self.known_hits = kn
        return 1 if viol else 0
