"""A small Rust front end: lexer + item (fn / const) parser + token queries.

Sufficient for the three small crates under crates/*: function items with their attributes
(#[pyfunction], #[pyo3(signature = ...)]), parameter lists, brace-matched bodies, `const` items,
`let` bindings, macro invocations and method-call chains.  No type resolution.
"""
from __future__ import annotations

import re
from dataclasses import dataclass, field

from .load import AnalysisError

TOKEN_RE = re.compile(r"""
    (?P<ws>\s+)
  | (?P<lcomment>//[^\n]*)
  | (?P<bcomment>/\*.*?\*/)
  | (?P<bstr>b"(?:\\.|[^"\\])*")
  | (?P<str>"(?:\\.|[^"\\])*")
  | (?P<bchar>b'(?:\\.|[^'\\])')
  | (?P<char>'(?:\\.|[^'\\])')
  | (?P<lifetime>'[A-Za-z_][A-Za-z0-9_]*)
  | (?P<num>0x[0-9a-fA-F_]+|0o[0-7_]+|0b[01_]+|[0-9][0-9_]*(?:\.[0-9_]+)?)(?P<numsuffix>(?:u|i)(?:8|16|32|64|128|size)|f32|f64)?
  | (?P<ident>[A-Za-z_][A-Za-z0-9_]*)
  | (?P<op>::|->|=>|==|!=|<=|>=|&&|\|\||<<=|>>=|<<|>>|\+=|-=|\*=|/=|%=|\|=|&=|\^=|\.\.=|\.\.|[-+*/%^!&|=<>@.,;:#$?~\[\](){}])
""", re.X | re.S)


@dataclass
class Tok:
    kind: str
    text: str
    line: int

    def __repr__(self):
        return f"{self.text}@{self.line}"


def lex(src: str) -> list[Tok]:
    out = []
    pos = 0
    line = 1
    while pos < len(src):
        m = TOKEN_RE.match(src, pos)
        if not m:
            raise AnalysisError(f"rust lexer: cannot tokenise at line {line}: {src[pos:pos + 30]!r}")
        kind = m.lastgroup
        text = m.group(0)
        if kind == "numsuffix":
            kind = "num"
        if kind not in ("ws", "lcomment", "bcomment"):
            out.append(Tok(kind if kind != "numsuffix" else "num", text, line))
        line += text.count("\n")
        pos = m.end()
    return out


def parse_int(text: str) -> int:
    t = re.sub(r"(u|i)(8|16|32|64|128|size)$", "", text).replace("_", "")
    if t.startswith("0x"):
        return int(t, 16)
    if t.startswith("0o"):
        return int(t, 8)
    if t.startswith("0b"):
        return int(t, 2)
    return int(t)


@dataclass
class RustFn:
    name: str
    attrs: list[str]
    params: list[tuple[str, str]]      # (name, type text)
    ret: str
    body: list[Tok]
    line: int
    is_pub: bool = False

    @property
    def is_pyfunction(self) -> bool:
        return any(a.startswith("pyfunction") for a in self.attrs)

    def signature_attr(self) -> str | None:
        for a in self.attrs:
            m = re.match(r"pyo3\s*\(\s*signature\s*=\s*\((.*)\)\s*\)\s*$", a, re.S)
            if m:
                return m.group(1)
        return None

    def text(self) -> str:
        return " ".join(t.text for t in self.body)

    def py_params(self) -> list[tuple[str, bool]]:
        """(name, has_default) as seen from Python (the `py: Python` token is not a parameter)."""
        sig = self.signature_attr()
        if sig is not None:
            out = []
            depth = 0
            cur = ""
            for ch in sig + ",":
                if ch in "([{":
                    depth += 1
                if ch in ")]}":
                    depth -= 1
                if ch == "," and depth == 0:
                    c = cur.strip()
                    if c and c not in ("*", "/"):
                        nm = c.split("=")[0].strip().lstrip("*")
                        out.append((nm, "=" in c))
                    cur = ""
                else:
                    cur += ch
            return out
        out = []
        for n, ty in self.params:
            if ty.replace(" ", "") in ("Python", "Python<'_>", "Python<'py>") or n in ("py", "_py"):
                continue
            out.append((n, ty.replace(" ", "").startswith("Option<")))
        return out


class RustFile:
    def __init__(self, rel: str, src: str):
        self.rel = rel
        self.src = src
        self.toks = lex(src)
        self.consts: dict[str, tuple[str, list[Tok], int]] = {}
        self.fns: dict[str, RustFn] = {}
        self._parse_items()

    def _match(self, i: int, open_: str, close: str) -> int:
        depth = 0
        while i < len(self.toks):
            t = self.toks[i].text
            if t == open_:
                depth += 1
            elif t == close:
                depth -= 1
                if depth == 0:
                    return i
            i += 1
        raise AnalysisError(f"{self.rel}: unbalanced {open_}{close}")

    def _parse_items(self, lo=0, hi=None):
        toks = self.toks
        hi = len(toks) if hi is None else hi
        i = lo
        attrs: list[str] = []
        while i < hi:
            t = toks[i]
            if t.text == "#" and i + 1 < hi and toks[i + 1].text in ("[", "!"):
                j = i + 1
                if toks[j].text == "!":
                    j += 1
                k = self._match(j, "[", "]")
                attrs.append("".join(x.text if x.kind != "ident" else x.text for x in toks[j + 1:k])
                             .replace(",", ", "))
                i = k + 1
                continue
            if t.text == "const" and i + 1 < hi and toks[i + 1].kind == "ident" and toks[i + 1].text != "fn":
                name = toks[i + 1].text
                j = i + 2
                ty = ""
                if toks[j].text == ":":
                    j += 1
                    while toks[j].text != "=":
                        ty += toks[j].text
                        j += 1
                j += 1
                k = j
                while toks[k].text != ";":
                    k += 1
                self.consts[name] = (ty, toks[j:k], t.line)
                i = k + 1
                attrs = []
                continue
            if t.text == "fn" and i + 1 < hi and toks[i + 1].kind == "ident":
                name = toks[i + 1].text
                j = i + 2
                if toks[j].text == "<":
                    # generics
                    depth = 0
                    while True:
                        if toks[j].text == "<":
                            depth += 1
                        elif toks[j].text == ">":
                            depth -= 1
                            if depth == 0:
                                break
                        j += 1
                    j += 1
                if toks[j].text != "(":
                    i += 1
                    continue
                k = self._match(j, "(", ")")
                params = self._params(toks[j + 1:k])
                b = k + 1
                ret = ""
                while toks[b].text not in ("{", ";"):
                    ret += toks[b].text + " "
                    b += 1
                if toks[b].text == ";":
                    i = b + 1
                    attrs = []
                    continue
                e = self._match(b, "{", "}")
                is_pub = i > 0 and toks[i - 1].text == "pub"
                self.fns[name] = RustFn(name, attrs, params, ret.strip(), toks[b + 1:e], t.line, is_pub)
                attrs = []
                i = e + 1
                continue
            if t.text in ("mod", "impl") :
                # descend into the block
                j = i
                while j < hi and toks[j].text not in ("{", ";"):
                    j += 1
                if j < hi and toks[j].text == "{":
                    e = self._match(j, "{", "}")
                    is_test = any("cfg(test)" in a.replace(" ", "") for a in attrs)
                    if not is_test:
                        self._parse_items(j + 1, e)
                    i = e + 1
                    attrs = []
                    continue
            if t.text in (";", "}"):
                attrs = []
            i += 1

    @staticmethod
    def _params(toks: list[Tok]) -> list[tuple[str, str]]:
        out = []
        depth = 0
        cur: list[Tok] = []
        for t in toks + [Tok("op", ",", 0)]:
            if t.text in "([{<":
                depth += 1
            if t.text in ")]}>":
                depth -= 1
            if t.text == "," and depth == 0:
                if cur:
                    txt = [x.text for x in cur]
                    if ":" in txt:
                        k = txt.index(":")
                        name = [x for x in txt[:k] if x not in ("mut", "&")]
                        out.append((name[-1] if name else "?", " ".join(txt[k + 1:])))
                    else:
                        out.append((" ".join(txt), ""))
                cur = []
            else:
                cur.append(t)
        return out

    def const_int(self, name: str) -> int:
        if name not in self.consts:
            raise AnalysisError(f"{self.rel}: const {name} not found")
        ty, toks, line = self.consts[name]
        return eval_int(toks, self)


def eval_int(toks: list[Tok], rf: RustFile | None = None) -> int:
    """Evaluate a simple constant integer expression (literals, consts, + - * << | &, casts)."""
    expr = []
    i = 0
    while i < len(toks):
        t = toks[i]
        if t.kind == "num":
            expr.append(str(parse_int(t.text)))
        elif t.kind == "ident" and t.text == "as":
            i += 1   # skip the type
        elif t.kind == "ident" and rf is not None and t.text in rf.consts:
            expr.append(str(rf.const_int(t.text)))
        elif t.text in ("+", "-", "*", "<<", ">>", "|", "&", "(", ")", "/", "%"):
            expr.append(t.text if t.text != "/" else "//")
        else:
            raise AnalysisError(f"rust const expression not understood at {t}")
        i += 1
    return int(eval(" ".join(expr), {"__builtins__": {}}))  # digits and operators only


def find_seq(toks: list[Tok], pattern: list[str], start=0):
    """Indices where the token texts match ``pattern`` ('_' matches any single token)."""
    out = []
    n = len(pattern)
    for i in range(start, len(toks) - n + 1):
        if all(p == "_" or toks[i + k].text == p for k, p in enumerate(pattern)):
            out.append(i)
    return out


def method_calls(toks: list[Tok], name: str) -> list[int]:
    """Indices of `. name (` or `. name ::<` occurrences (index of the name token)."""
    out = []
    for i in range(1, len(toks) - 1):
        if toks[i].text == name and toks[i - 1].text == "." and toks[i + 1].text in ("(", "::"):
            out.append(i)
    return out


def macro_calls(toks: list[Tok], name: str) -> list[int]:
    return [i for i in range(len(toks) - 1) if toks[i].text == name and toks[i + 1].text == "!"]


def receiver_chain(toks: list[Tok], i: int) -> list[Tok]:
    """Tokens of the method-call chain that ends just before the `.` at index i-1 (walking left over
    balanced groups and `.`/`::` separated segments)."""
    j = i - 2
    depth = 0
    start = j
    while j >= 0:
        t = toks[j].text
        if t == "}" and depth == 0:
            break      # end of the previous block
        if t in (")", "]", "}", ">") and not (t == ">" and depth == 0 and toks[j - 1].text == "-"):
            depth += 1
        elif t in ("(", "[", "{", "<"):
            if depth == 0:
                break
            depth -= 1
        elif depth == 0 and t in (";", ",", "=", "{", "=>", "|", "return", "let", "&&", "||", "+", "-", "*", "/", "match", "if",
                                  "while", "in", "else", "for"):
            break
        start = j
        j -= 1
    return toks[start:i - 1]
