"""Graph queries over a CFG: reachability with avoided nodes (must-pass-through), dominators,
shortest witness paths, reaching definitions, control dependence, product (typestate) exploration."""
from __future__ import annotations

import ast
import collections

from .cfg import CFG, EXC_LABELS, Node, node_exprs, _walk_shallow


def reach(g: CFG, srcs, avoid=frozenset(), skip_labels=frozenset(), include_srcs=False, edge_ok=None) -> set[int]:
    """Nodes reachable from ``srcs`` by >=1 edge without entering a node in ``avoid``.
    ``edge_ok(a, b, label)`` may veto individual edges."""
    seen: set[int] = set()
    work = list(srcs)
    if include_srcs:
        seen.update(srcs)
    while work:
        x = work.pop()
        for b, l in g.succ[x]:
            if l in skip_labels or b in avoid or b in seen:
                continue
            if edge_ok is not None and not edge_ok(x, b, l):
                continue
            seen.add(b)
            work.append(b)
    return seen


def path(g: CFG, srcs, dst: int, avoid=frozenset(), skip_labels=frozenset(), edge_ok=None) -> list[int] | None:
    """Shortest path (as node ids) from any of ``srcs`` to ``dst`` (at least one edge unless dst in srcs)."""
    srcs = list(srcs)
    prev: dict[int, int | None] = {s: None for s in srcs}
    q = collections.deque(srcs)
    found = dst in prev
    while q and not found:
        x = q.popleft()
        for b, l in g.succ[x]:
            if l in skip_labels or b in avoid or b in prev:
                continue
            if edge_ok is not None and not edge_ok(x, b, l):
                continue
            prev[b] = x
            if b == dst:
                found = True
                break
            q.append(b)
    if not found:
        return None
    out = []
    cur: int | None = dst
    while cur is not None:
        out.append(cur)
        cur = prev[cur]
    return list(reversed(out))


def lines(g: CFG, p: list[int] | None, limit: int = 12) -> list[int]:
    if not p:
        return []
    ls = []
    for i in p:
        ln = g.nodes[i].line
        if ln and (not ls or ls[-1] != ln):
            ls.append(ln)
    if len(ls) > limit:
        ls = ls[: limit // 2] + [-1] + ls[-limit // 2:]
    return ls


def must_pass(g: CFG, targets, through, start=None, skip_labels=frozenset(), edge_ok=None):
    """MUST-PRECEDE: every path start->target passes a node in ``through``.
    Returns the list of targets reachable while avoiding ``through`` (empty = holds)."""
    start = [g.entry] if start is None else list(start)
    through = set(through)
    if not skip_labels and _has_inlined_code(g):
        # code that sa/deextract.py inlined back carries result variables and one-trip loops: follow None-flags precisely
        r = reach_ps(g, [s for s in start if s not in through], avoid=through, edge_ok=edge_ok)
        return [t for t in targets if t in r and t not in through]
    r = reach(g, [s for s in start if s not in through], avoid=through, skip_labels=skip_labels,
              include_srcs=True, edge_ok=edge_ok)
    return [t for t in targets if t in r and t not in through]


def _has_inlined_code(g: CFG) -> bool:
    v = getattr(g, "_inlined", None)
    if v is None:
        v = any(isinstance(n.ast, ast.For) and isinstance(n.ast.target, ast.Name) and n.ast.target.id == "_once" for n in g.nodes.values())
        try:
            g._inlined = v
        except Exception:
            pass
    return v


def dominators(g: CFG, skip_labels=frozenset()) -> dict[int, set[int]]:
    preds = {i: [] for i in g.nodes}
    for a, outs in g.succ.items():
        for b, l in outs:
            if l not in skip_labels:
                preds[b].append(a)
    alln = set(g.nodes)
    dom = {i: set(alln) for i in g.nodes}
    dom[g.entry] = {g.entry}
    order = list(g.nodes)
    changed = True
    while changed:
        changed = False
        for i in order:
            if i == g.entry:
                continue
            ps = [dom[p] for p in preds[i]]
            new = (set.intersection(*ps) if ps else set()) | {i}
            if new != dom[i]:
                dom[i] = new
                changed = True
    return dom


# ---------------------------------------------------------------- definitions and uses

def stored_names(n: Node) -> set[str]:
    """Local names (re)bound at this CFG node."""
    out: set[str] = set()
    a = n.ast
    if a is None:
        return out
    if n.kind == "stmt":
        if isinstance(a, (ast.FunctionDef, ast.AsyncFunctionDef, ast.ClassDef)):
            out.add(a.name)
            return out
        if isinstance(a, (ast.Import, ast.ImportFrom)):
            for al in a.names:
                out.add((al.asname or al.name).split(".")[0])
            return out
        for x in _walk_shallow(a):
            if isinstance(x, ast.Name) and isinstance(x.ctx, (ast.Store, ast.Del)):
                out.add(x.id)
            elif isinstance(x, ast.NamedExpr) and isinstance(x.target, ast.Name):
                out.add(x.target.id)
    elif n.kind == "test":
        for x in _walk_shallow(a):
            if isinstance(x, ast.NamedExpr) and isinstance(x.target, ast.Name):
                out.add(x.target.id)
    elif n.kind == "for_iter":
        for x in ast.walk(a.target):
            if isinstance(x, ast.Name):
                out.add(x.id)
    elif n.kind == "with_enter":
        v = a.items[n.info].optional_vars
        if v is not None:
            for x in ast.walk(v):
                if isinstance(x, ast.Name):
                    out.add(x.id)
    elif n.kind == "handler":
        if a.name:
            out.add(a.name)
    return out


def loaded_names(n: Node) -> set[str]:
    out: set[str] = set()
    for e in node_exprs(n):
        for x in _walk_shallow(e):
            if isinstance(x, ast.Name) and isinstance(x.ctx, ast.Load):
                out.add(x.id)
    return out


def reaching_defs(g: CFG) -> dict[int, dict[str, frozenset[int]]]:
    """For each node, the definitions (node ids; -1 = parameter/free) of each name that reach its *entry*."""
    defs_at = {i: stored_names(n) for i, n in g.nodes.items()}
    IN: dict[int, dict[str, frozenset[int]]] = {i: {} for i in g.nodes}
    OUT: dict[int, dict[str, frozenset[int]]] = {i: {} for i in g.nodes}
    work = collections.deque([g.entry])
    inq = {g.entry}
    pred = g.pred
    first = {i: True for i in g.nodes}
    while work:
        i = work.popleft()
        inq.discard(i)
        merged: dict[str, set[int]] = {}
        for p, _ in pred[i]:
            for k, v in OUT[p].items():
                merged.setdefault(k, set()).update(v)
        new_in = {k: frozenset(v) for k, v in merged.items()}
        out = dict(new_in)
        for name in defs_at[i]:
            out[name] = frozenset({i})
        if first[i] or out != OUT[i] or new_in != IN[i]:
            first[i] = False
            IN[i] = new_in
            OUT[i] = out
            for b, _ in g.succ[i]:
                if b not in inq:
                    inq.add(b)
                    work.append(b)
    return IN


def control_deps(g: CFG, skip_labels=frozenset()) -> dict[int, set[int]]:
    """node -> set of test/for_iter nodes it is control dependent on (via post-dominance on a
    graph with a virtual exit joining exit_normal and exit_raise)."""
    # post-dominators
    VEXIT = -1
    succ = {i: [b for b, l in outs if l not in skip_labels] for i, outs in g.succ.items()}
    succ[g.exit_normal] = [VEXIT]
    succ[g.exit_raise] = [VEXIT]
    succ[VEXIT] = []
    nodes = list(succ)
    alln = set(nodes)
    pdom = {i: set(alln) for i in nodes}
    pdom[VEXIT] = {VEXIT}
    changed = True
    while changed:
        changed = False
        for i in reversed(nodes):
            if i == VEXIT:
                continue
            ss = [pdom[s] for s in succ[i]]
            new = (set.intersection(*ss) if ss else set()) | {i}
            if new != pdom[i]:
                pdom[i] = new
                changed = True
    cd: dict[int, set[int]] = {i: set() for i in g.nodes}
    for a in g.nodes:
        outs = succ[a]
        if len(outs) < 2:
            continue
        for b in outs:
            # nodes post-dominating b but not strictly post-dominating a are control dependent on a
            for x in pdom[b]:
                if x == VEXIT:
                    continue
                if x not in pdom[a] or x == a:
                    cd[x].add(a)
    return cd


# ---------------------------------------------------------------- typestate product

class Product:
    """Least fixpoint of reachable (node, state) pairs.

    ``node_fn(node, state) -> state`` applies the events of a node;
    ``edge_fn(node, state, label, succ) -> state | None`` adjusts/filters per out-edge (None = infeasible).
    ``seen`` maps (node, state_after_node) ; ``came`` gives predecessor pairs for witnesses.
    """

    def __init__(self, g: CFG, init, node_fn, edge_fn=None):
        self.g = g
        self.at: dict[tuple[int, object], tuple[int, object] | None] = {}
        self.after: dict[tuple[int, object], object] = {}
        work = collections.deque()
        for nid, st in init:
            if (nid, st) not in self.at:
                self.at[(nid, st)] = None
                work.append((nid, st))
        while work:
            nid, st = work.popleft()
            node = g.nodes[nid]
            st2 = node_fn(node, st)
            self.after[(nid, st)] = st2
            if st2 is None:
                continue
            for b, l in g.succ[nid]:
                st3 = edge_fn(node, st2, l, b) if edge_fn else st2
                if st3 is None:
                    continue
                if (b, st3) not in self.at:
                    self.at[(b, st3)] = (nid, st)
                    work.append((b, st3))

    def states_at(self, nid: int):
        return [st for (n, st) in self.at if n == nid]

    def witness(self, nid: int, st) -> list[int]:
        out = []
        cur = (nid, st)
        while cur is not None:
            out.append(cur[0])
            cur = self.at[cur]
        return list(reversed(out))


# ---------------------------------------------------------------- None-ness sensitive reachability
def none_flag_vars(g: CFG) -> set[str]:
    """Locals used as None-flags: assigned the literal None somewhere and tested for None-ness somewhere."""
    assigned, tested = set(), set()
    for n in g.nodes.values():
        a = n.ast
        if n.kind == "stmt" and isinstance(a, ast.Assign) and isinstance(a.value, ast.Constant) and a.value.value is None:
            for t in a.targets:
                if isinstance(t, ast.Name):
                    assigned.add(t.id)
        if n.kind == "stmt" and isinstance(a, ast.AnnAssign) and isinstance(a.value, ast.Constant) and a.value.value is None \
                and isinstance(a.target, ast.Name):
            assigned.add(a.target.id)       # `failure: str | None = None`
        if n.kind == "test":
            e = a
            if isinstance(e, ast.Compare) and len(e.ops) == 1 and isinstance(e.ops[0], (ast.Is, ast.IsNot)) and isinstance(e.left, ast.Name) \
                    and isinstance(e.comparators[0], ast.Constant) and e.comparators[0].value is None:
                tested.add(e.left.id)
            elif isinstance(e, ast.Name):
                tested.add(e.id)
    return assigned & tested


def reach_ps(g: CFG, srcs, avoid=frozenset(), edge_ok=None, track: set[str] | None = None) -> set[int]:
    """reach() made sensitive to None-flags: the None-ness of the tracked locals is part of the state, assignments update
    it, `v is None` / `v is not None` / `v` tests prune the infeasible edge.  (Needed after helpers were inlined with a
    result variable: `pack = None; ...; if pack is not None:`.)"""
    track = none_flag_vars(g) if track is None else track
    # one-trip loops written by sa/deextract.py (`for _once in (None,):`): the body runs exactly once, so the loop cannot be left by
    # exhaustion before it was entered.  One more state slot per such loop: "F" (fresh: initialised, body not entered yet) / "-".
    once = sorted(i for i, n in g.nodes.items() if n.kind == "for_iter" and isinstance(n.ast.target, ast.Name) and n.ast.target.id == "_once")
    if not track and not once:
        return reach(g, srcs, avoid=avoid, include_srcs=True, edge_ok=edge_ok)
    once_init = {i: [j for j in once if g.nodes[j].ast is n.ast] for i, n in g.nodes.items() if n.kind == "for_init"}
    names = sorted(track) + [f"#once{j}" for j in once]
    idx = {v: k for k, v in enumerate(names)}
    avoid = set(avoid)

    def node_fn(node, st):
        if node.id in avoid:
            return None
        a = node.ast
        if node.kind == "for_init" and once_init.get(node.id):
            st = list(st)
            for j in once_init[node.id]:
                st[idx[f"#once{j}"]] = "F"
            st = tuple(st)
        if node.kind == "stmt" and isinstance(a, (ast.Assign, ast.AnnAssign)) and getattr(a, "value", None) is not None:
            tgts = a.targets if isinstance(a, ast.Assign) else [a.target]
            st = list(st)
            for t in tgts:
                for x in ast.walk(t):
                    if isinstance(x, ast.Name) and x.id in idx and isinstance(x.ctx, ast.Store):
                        if isinstance(t, ast.Name) and isinstance(a.value, ast.Constant):
                            st[idx[x.id]] = "N" if a.value.value is None else "NN"
                        elif isinstance(t, ast.Name) and isinstance(a.value, (ast.List, ast.Tuple, ast.Dict, ast.Set, ast.JoinedStr)):
                            st[idx[x.id]] = "NN"
                        else:
                            st[idx[x.id]] = "U"
            return tuple(st)
        if node.kind in ("for_iter", "for_init", "with_enter") and a is not None:
            st = list(st)
            tg = getattr(a, "target", None)
            for x in ast.walk(tg) if tg is not None else []:
                if isinstance(x, ast.Name) and x.id in idx:
                    st[idx[x.id]] = "U"
            return tuple(st)
        return st

    def edge_fn(node, st, label, succ):
        if edge_ok is not None and not edge_ok(node.id, succ, label):
            return None
        if node.id in once and label in ("true", "false"):
            k = idx[f"#once{node.id}"]
            if label == "false" and st[k] == "F":
                return None                      # exhausted before the single trip was made: infeasible
            if label == "true":
                st = list(st)
                st[k] = "-"
                st = tuple(st)
        if node.kind == "test" and label in ("true", "false"):
            e = node.ast
            v = pol = None
            if isinstance(e, ast.Name) and e.id in idx:
                v, pol = e.id, "truthy"
            elif isinstance(e, ast.Compare) and len(e.ops) == 1 and isinstance(e.left, ast.Name) and e.left.id in idx \
                    and isinstance(e.comparators[0], ast.Constant) and e.comparators[0].value is None:
                v, pol = e.left.id, ("isnone" if isinstance(e.ops[0], ast.Is) else "notnone" if isinstance(e.ops[0], ast.IsNot) else None)
            if v is not None and pol is not None:
                cur = st[idx[v]]
                if pol == "isnone":
                    if (cur == "N" and label == "false") or (cur == "NN" and label == "true"):
                        return None
                    new = "N" if label == "true" else "NN"
                elif pol == "notnone":
                    if (cur == "N" and label == "true") or (cur == "NN" and label == "false"):
                        return None
                    new = "NN" if label == "true" else "N"
                else:
                    if cur == "N" and label == "true":
                        return None
                    new = "NN" if label == "true" else cur
                st = list(st)
                st[idx[v]] = new
                return tuple(st)
        return st
    init = tuple("U" for _ in names)
    p = Product(g, [(s, init) for s in srcs if s not in avoid], node_fn, edge_fn)
    return {n for (n, _st) in p.at if n not in avoid}


def must_pass_ps(g: CFG, targets, through, start=None, edge_ok=None):
    """must_pass() on top of reach_ps()."""
    start = [g.entry] if start is None else list(start)
    through = set(through)
    r = reach_ps(g, [s for s in start if s not in through], avoid=through, edge_ok=edge_ok)
    return [t for t in targets if t in r and t not in through]
