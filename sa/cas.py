"""Conditional ref operations (compare-and-swap): call-site enumeration and RESULT-USED."""
from __future__ import annotations

import ast
from dataclasses import dataclass

from .cfg import CFG, node_exprs, _walk_shallow
from .flow import reaching_defs
from .load import Program, Func, arg_of, dotted, is_none, norm

CAS_METHODS = {"set_if_equals": (1, "old_ref"), "remove_if_equals": (1, "old_ref"), "add_if_new": (None, None)}


@dataclass
class CasSite:
    func: Func | None
    mod: object
    call: ast.Call
    method: str
    old: ast.AST | None
    conditional: bool       # expected-old argument is not the literal None
    use: str                # test | return | assigned:<var> | arg | dropped | assigned-unused:<var> | other
    recv: str

    @property
    def key(self):
        return f"{self.recv}.{self.method}({', '.join(norm(a, 30) for a in self.call.args[:3])})"


def _enclosing(mod, node, kinds):
    n = node
    while n in mod.parents:
        n = mod.parents[n]
        if isinstance(n, kinds):
            return n
    return None


def classify_use(mod, call: ast.Call, fn_node) -> str:
    """Where does the value of ``call`` go?"""
    par = mod.parents.get(call)
    cur = call
    # climb through not / boolean operators / parentheses / comparisons / await
    while isinstance(par, (ast.UnaryOp, ast.BoolOp, ast.Compare, ast.Await)):
        cur, par = par, mod.parents.get(par)
    if isinstance(par, (ast.If, ast.While, ast.IfExp, ast.Assert)) and getattr(par, "test", None) is cur:
        return "test"
    if isinstance(par, ast.Return):
        return "return"
    if isinstance(par, ast.Expr):
        return "dropped"
    if isinstance(par, (ast.Assign, ast.AnnAssign, ast.NamedExpr)):
        tgt = par.targets[0] if isinstance(par, ast.Assign) else par.target
        if isinstance(tgt, ast.Name):
            v = tgt.id
            loads = [x for x in ast.walk(fn_node) if isinstance(x, ast.Name) and x.id == v and isinstance(x.ctx, ast.Load)
                     and getattr(x, "lineno", 0) >= par.lineno] if fn_node is not None else []
            # the variable must reach a branch, a return or another call
            return f"assigned:{v}" if loads else f"assigned-unused:{v}"
        return "stored"
    if isinstance(par, (ast.Call, ast.keyword, ast.Tuple, ast.List, ast.Dict, ast.Yield, ast.Starred, ast.JoinedStr,
                        ast.FormattedValue)):
        return "arg"
    return "other"


def cas_sites(prog: Program) -> list[CasSite]:
    out = []
    for m in prog.modules.values():
        for c in ast.walk(m.tree):
            if not (isinstance(c, ast.Call) and isinstance(c.func, ast.Attribute) and c.func.attr in CAS_METHODS):
                continue
            meth = c.func.attr
            pos, kw = CAS_METHODS[meth]
            old = arg_of(c, pos, kw) if pos is not None else None
            f = m.enclosing_func(c)
            conditional = meth == "add_if_new" or not is_none(old)
            use = classify_use(m, c, f.node if f else None)
            out.append(CasSite(f, m, c, meth, old, conditional, use, dotted(c.func.value) or norm(c.func.value, 40)))
    return out


def result_dropped(s: CasSite) -> bool:
    return s.use == "dropped" or s.use.startswith("assigned-unused")
