"""Alpha-conversion of function-local variable names back to the vocabulary the rules were written in.

Several rules name a local variable of an anchored function (`offset`, `realname`, `left`, ...).  Renaming such a
local changes no behaviour, so it must not change a verdict.  Instead of teaching every rule every possible
spelling, the loader undoes renames before the rules run:

  * `sa/refnames.json.gz` (written by tools/gen_refnames.py from the tree the rules were confirmed on) holds, per
    function, the sequence of statement *shapes* (the statement's header unparsed with every local replaced by `_`)
    and, per statement, the locals in order of appearance;
  * at load time the same sequence is computed for the current source, the two are aligned with difflib, and for
    statements with identical shape the i-th local of the current statement is matched with the i-th local of the
    reference statement;
  * a current local is renamed to its reference name when all its matches agree, the mapping is injective, the
    reference name is not otherwise used in the function, and no nested scope captures the variable.

This is a semantics-preserving alpha-conversion of the program under analysis, decided from the current source; the
reference only supplies the preferred names.  Where the function changed so much that nothing aligns, nothing is
renamed and the rules see the source as it is.  Parameters, attributes and globals are never touched.
"""
from __future__ import annotations

import ast
import difflib
import gzip
import json
import os

REF = os.path.join(os.path.dirname(os.path.abspath(__file__)), "refnames.json.gz")
_ref_cache = None


def _ref():
    global _ref_cache
    if _ref_cache is None:
        try:
            with gzip.open(REF, "rt", encoding="utf-8") as f:
                _ref_cache = json.load(f)
        except OSError:
            _ref_cache = {}
    return _ref_cache


_SCOPES = (ast.FunctionDef, ast.AsyncFunctionDef, ast.Lambda, ast.ClassDef)


def _own_nodes(fn):
    """Nodes of fn's body that belong to fn's own scope (nested defs/lambdas/classes are opaque)."""
    stack = list(reversed(fn.body))
    while stack:
        n = stack.pop()
        yield n
        if isinstance(n, _SCOPES):
            continue
        stack.extend(reversed(list(ast.iter_child_nodes(n))))


def locals_of(fn) -> set[str]:
    """Names stored in fn's own scope, minus parameters and declared globals/nonlocals."""
    stored, declared = set(), set()
    for n in _own_nodes(fn):
        if isinstance(n, ast.Name) and isinstance(n.ctx, (ast.Store, ast.Del)):
            stored.add(n.id)
        elif isinstance(n, (ast.Global, ast.Nonlocal)):
            declared.update(n.names)
        elif isinstance(n, ast.ExceptHandler) and n.name:
            declared.add(n.name)        # bound by the handler, not an ast.Name: leave alone
        elif isinstance(n, (ast.MatchAs, ast.MatchStar)) and n.name:
            declared.add(n.name)
        elif isinstance(n, ast.MatchMapping) and n.rest:
            declared.add(n.rest)
        elif isinstance(n, (ast.Import, ast.ImportFrom)):
            for a in n.names:
                declared.add((a.asname or a.name).split(".")[0])
    a = fn.args
    params = {x.arg for x in a.posonlyargs + a.args + a.kwonlyargs} | ({a.vararg.arg} if a.vararg else set()) | ({a.kwarg.arg} if a.kwarg else set())
    # comprehension targets live in their own scope
    comp = set()
    for n in _own_nodes(fn):
        if isinstance(n, ast.comprehension):
            comp |= {x.id for x in ast.walk(n.target) if isinstance(x, ast.Name)}
    return stored - declared - params - comp


def _captured(fn) -> set[str]:
    """Names mentioned inside nested scopes of fn (a rename would have to follow them there: not attempted)."""
    out = set()
    for n in _own_nodes(fn):
        if isinstance(n, _SCOPES):
            out |= {x.id for x in ast.walk(n) if isinstance(x, ast.Name)}
            out |= {x.arg for x in ast.walk(n) if isinstance(x, ast.arg)}
    return out


class _Shape(ast.NodeTransformer):
    def __init__(self, loc):
        self.loc = loc
        self.seq = []

    def visit_Name(self, node):
        if node.id in self.loc:
            self.seq.append(node.id)
            return ast.copy_location(ast.Name(id="_", ctx=node.ctx), node)
        return node

    def generic_visit(self, node):
        if isinstance(node, _SCOPES):
            return node
        return super().generic_visit(node)


def _header(stmt: ast.stmt) -> ast.AST:
    """The statement without nested statement lists (those are visited on their own)."""
    import copy
    s = copy.copy(stmt)
    for f in ("body", "orelse", "finalbody", "handlers", "cases"):
        if hasattr(s, f) and isinstance(getattr(s, f), list):
            setattr(s, f, [ast.Pass()] if f == "body" else [])
    return s


def _statements(fn):
    """Own statements of fn in source order (compound statements contribute their header)."""
    out = []

    def rec(stmts):
        for s in stmts:
            if isinstance(s, _SCOPES):
                continue
            out.append(s)
            for f in ("body", "orelse", "finalbody"):
                if isinstance(getattr(s, f, None), list):
                    rec(getattr(s, f))
            for h in getattr(s, "handlers", []) or []:
                rec(h.body)
            for c in getattr(s, "cases", []) or []:
                rec(c.body)
    rec(fn.body)
    return out


def signature(fn) -> list[tuple[str, list[str]]]:
    """[(shape text, [locals in order of appearance])] for every own statement of fn."""
    import copy
    loc = locals_of(fn)
    sig = []
    for s in _statements(fn):
        h = copy.deepcopy(_header(s))
        sh = _Shape(loc)
        h = sh.visit(h)
        try:
            txt = ast.unparse(h)
        except Exception:
            txt = type(s).__name__
        sig.append((txt, sh.seq))
    return sig


def functions(tree):
    """(qualname, node) for every function of a module, nested ones as `outer.<locals>.inner`."""
    out = []

    def rec(node, prefix):
        for ch in ast.iter_child_nodes(node):
            if isinstance(ch, (ast.FunctionDef, ast.AsyncFunctionDef)):
                out.append((prefix + ch.name, ch))
                rec(ch, prefix + ch.name + ".<locals>.")
            elif isinstance(ch, ast.ClassDef):
                rec(ch, prefix + ch.name + ".")
            elif isinstance(ch, (ast.If, ast.Try, ast.With, ast.For, ast.While)):
                rec(ch, prefix)
    rec(tree, "")
    return out


class _Rename(ast.NodeTransformer):
    def __init__(self, mapping, deep=frozenset()):
        self.m = mapping
        self.deep = set(deep)       # names that nested scopes share with the function (closure variables): renamed there too
        self.depth = 0

    def visit_Name(self, node):
        if node.id in self.m and (self.depth == 0 or node.id in self.deep):
            return ast.copy_location(ast.Name(id=self.m[node.id], ctx=node.ctx), node)
        return node

    def visit_Nonlocal(self, node):
        node.names = [self.m[n] if (n in self.m and n in self.deep) else n for n in node.names]
        return node

    def generic_visit(self, node):
        if isinstance(node, _SCOPES):
            if not self.deep:
                return node
            self.depth += 1
            try:
                return super().generic_visit(node)
            finally:
                self.depth -= 1
        return super().generic_visit(node)


def _shared_ok(fn) -> set[str]:
    """Closure variables that every nested scope only reads, or re-binds under `nonlocal`: safe to rename everywhere."""
    bad, seen = set(), set()
    for n in _own_nodes(fn):
        if not isinstance(n, _SCOPES):
            continue
        inner = list(ast.walk(n))
        names = {x.id for x in inner if isinstance(x, ast.Name)}
        seen |= names
        nonlocal_ = {nm for x in inner if isinstance(x, ast.Nonlocal) for nm in x.names}
        params = {a.arg for x in inner if isinstance(x, ast.arguments) for a in x.posonlyargs + x.args + x.kwonlyargs} | \
                 {x.vararg.arg for x in inner if isinstance(x, ast.arguments) and x.vararg} | {x.kwarg.arg for x in inner if isinstance(x, ast.arguments) and x.kwarg}
        stored = {x.id for x in inner if isinstance(x, ast.Name) and isinstance(x.ctx, (ast.Store, ast.Del))}
        comp = {y.id for x in inner if isinstance(x, ast.comprehension) for y in ast.walk(x.target) if isinstance(y, ast.Name)}
        bad |= params | comp | (stored - nonlocal_)
        if isinstance(n, ast.ClassDef):
            bad |= names
    return seen - bad


def dename(tree: ast.AST, rel: str, src_digest: str | None = None) -> int:
    """Rename locals of the functions in `tree` (in place) to their reference names.  Returns the number of renames."""
    ref = _ref().get(rel)
    if not ref:
        return 0
    if src_digest is not None and ref.get("#digest") == src_digest:
        return 0        # the file is byte-identical to the one the names were taken from
    total = 0
    seen = {}
    for q, fn in functions(tree):
        seen[q] = seen.get(q, 0) + 1
        key = q if seen[q] == 1 else f"{q}#{seen[q]}"
        r = ref.get(key)
        if not r:
            continue
        cur = signature(fn)
        if [c for c in cur] == [tuple(x) if isinstance(x, tuple) else (x[0], x[1]) for x in r]:
            continue
        cur_shapes = [c[0] for c in cur]
        ref_shapes = [x[0] for x in r]
        votes: dict[str, dict[str, int]] = {}
        sm = difflib.SequenceMatcher(a=cur_shapes, b=ref_shapes, autojunk=False)
        for blk in sm.get_matching_blocks():
            for k in range(blk.size):
                cn, rn = cur[blk.a + k][1], r[blk.b + k][1]
                if len(cn) != len(rn):
                    continue
                for a_, b_ in zip(cn, rn):
                    votes.setdefault(a_, {}).setdefault(b_, 0)
                    votes[a_][b_] += 1
        loc = locals_of(fn)
        captured = _captured(fn)
        shared = _shared_ok(fn) if captured else set()
        all_names = {x.id for x in _own_nodes(fn) if isinstance(x, ast.Name)} | captured
        mapping = {}
        for a_, v in votes.items():
            if len(v) != 1:
                continue
            b_ = next(iter(v))
            if a_ == b_ or a_ not in loc or (a_ in captured and a_ not in shared):
                continue
            mapping[a_] = b_
        # injective, and the new name is free in the function (or is itself renamed away)
        targets = list(mapping.values())
        mapping = {a_: b_ for a_, b_ in mapping.items() if targets.count(b_) == 1 and (b_ not in all_names or b_ in mapping)}
        # a chain a->b, b->c is fine when applied simultaneously; a target that is still in use is not
        mapping = {a_: b_ for a_, b_ in mapping.items() if b_ not in all_names or b_ in mapping}
        if not mapping:
            continue
        rn = _Rename(mapping, deep={a_ for a_ in mapping if a_ in captured})
        fn.body = [rn.visit(s) for s in fn.body]
        total += len(mapping)
    return total


_PURE_CALLS = {"len", "ord", "bool", "int", "min", "max", "abs", "isinstance", "tuple", "frozenset", "bytes", "str", "chr", "divmod", "getattr"}


_PURE_METHODS = {"issuperset", "issubset", "startswith", "endswith", "isdigit", "isalnum", "isalpha", "lower", "upper", "strip", "rstrip", "lstrip",
                 "count", "find", "rfind", "decode", "encode", "hex", "bit_length", "replace", "split", "rsplit", "join", "partition"}


def detemp(tree: ast.AST, rel: str) -> int:
    """Undo "introduce explaining variable": a local that the reference function does not have, assigned exactly once from a
    side-effect free expression over names that are themselves never re-bound in the function, is substituted by that
    expression where it is read and its assignment dropped.  (Analysis only: the rules look at what is compared and what
    is formatted, not at how often it is evaluated.)"""
    import copy
    ref = _ref().get(rel)
    if not ref:
        return 0
    known_funcs = set(ref.get("#funcs", []))
    total = 0
    seen = {}
    for q, fn in functions(tree):
        seen[q] = seen.get(q, 0) + 1
        key = q if seen[q] == 1 else f"{q}#{seen[q]}"
        if q not in known_funcs:
            continue
        ref_names = {n for _, names in (ref.get(key) or []) for n in names}
        loc = locals_of(fn)
        new = loc - ref_names
        if not new:
            continue
        captured = _captured(fn)
        own = list(_own_nodes(fn))
        stores: dict[str, int] = {}
        for n in own:
            if isinstance(n, ast.Name) and isinstance(n.ctx, (ast.Store, ast.Del)):
                stores[n.id] = stores.get(n.id, 0) + 1
        a = fn.args
        params = {x.arg for x in a.posonlyargs + a.args + a.kwonlyargs}

        def pure(e) -> bool:
            for n in ast.walk(e):
                if isinstance(n, ast.Call) and not (isinstance(n.func, ast.Name) and n.func.id in _PURE_CALLS) \
                        and not (isinstance(n.func, ast.Attribute) and n.func.attr in _PURE_METHODS):
                    return False
                if isinstance(n, (ast.Lambda, ast.ListComp, ast.SetComp, ast.DictComp, ast.GeneratorExp, ast.Await, ast.Yield, ast.YieldFrom, ast.NamedExpr,
                                  ast.List, ast.Dict, ast.Set, ast.JoinedStr)):
                    return False
                if isinstance(n, ast.Subscript) and not isinstance(n.slice, ast.Slice):
                    return False          # an item lookup can raise / read a store: it is an event, not a value
            return True
        in_try = {id(st) for t_ in own if isinstance(t_, ast.Try) for st in t_.body}
        table = {}
        for t in sorted(new):
            if stores.get(t) != 1 or t in captured:
                continue
            defs = [n for n in own if (isinstance(n, ast.Assign) and len(n.targets) == 1 and isinstance(n.targets[0], ast.Name) and n.targets[0].id == t)
                    or (isinstance(n, ast.AnnAssign) and isinstance(n.target, ast.Name) and n.target.id == t and n.value is not None)]
            if len(defs) != 1 or id(defs[0]) in in_try:
                continue
            e = defs[0].value
            free = {x.id for x in ast.walk(e) if isinstance(x, ast.Name)}
            if not pure(e) or t in free or any(stores.get(v, 0) > (0 if v in params else 1) for v in free):
                continue
            if any(v in new and v != t for v in free):
                continue          # chains of new temporaries: keep it simple
            table[t] = (defs[0], e)
        if not table:
            continue

        class Sub(ast.NodeTransformer):
            def visit_Name(self_, node):
                if isinstance(node.ctx, ast.Load) and node.id in table:
                    return ast.copy_location(copy.deepcopy(table[node.id][1]), node)
                return node

            def visit_FunctionDef(self_, node):
                return node
            visit_AsyncFunctionDef = visit_Lambda = visit_FunctionDef

            def generic_visit(self_, node):
                for field in ("body", "orelse", "finalbody"):
                    lst = getattr(node, field, None)
                    if isinstance(lst, list) and lst and isinstance(lst[0], ast.stmt):
                        kept = [st for st in lst if not any(st is d for d, _ in table.values())]
                        if not kept and field == "body":
                            kept = [ast.copy_location(ast.Pass(), lst[0])]
                        setattr(node, field, kept)
                return super().generic_visit(node)
        sub = Sub()
        kept = [st for st in fn.body if not any(st is d for d, _ in table.values())] or [ast.copy_location(ast.Pass(), fn.body[0])]
        fn.body = [sub.visit(st) for st in kept]
        total += len(table)
    if total:
        ast.fix_missing_locations(tree)
    return total


def build_reference(root: str, rels: list[str]) -> dict:
    out = {}
    for rel in rels:
        with open(os.path.join(root, rel), encoding="utf-8") as f:
            src = f.read()
        tree = ast.parse(src, filename=rel)
        import hashlib
        d = {"#digest": hashlib.sha256(src.encode("utf-8")).hexdigest()}
        seen = {}
        for q, fn in functions(tree):
            seen[q] = seen.get(q, 0) + 1
            key = q if seen[q] == 1 else f"{q}#{seen[q]}"
            sig = signature(fn)
            if any(names for _, names in sig):
                d[key] = [[t, n] for t, n in sig]
        d["#funcs"] = sorted({q for q, _ in functions(tree)})
        d["#shapes"] = {q: [t for t, _ in signature(fn)] for q, fn in functions(tree)}
        d["#attrs"] = class_attrs(tree)
        d["#consts"] = module_consts(tree)
        out[rel] = d
    return out


def class_attrs(tree: ast.AST) -> dict:
    """{class: {private attribute: [stores, loads, sorted methods it occurs in]}} for `self._x` attributes."""
    out = {}
    for cls in [c for c in ast.walk(tree) if isinstance(c, ast.ClassDef)]:
        d = {}
        for meth in [f for f in cls.body if isinstance(f, (ast.FunctionDef, ast.AsyncFunctionDef))]:
            for x in ast.walk(meth):
                if isinstance(x, ast.Attribute) and isinstance(x.value, ast.Name) and x.value.id == "self" and x.attr.startswith("_") and not x.attr.startswith("__"):
                    e = d.setdefault(x.attr, [0, 0, set()])
                    e[0 if isinstance(x.ctx, (ast.Store, ast.Del)) else 1] += 1
                    e[2].add(meth.name)
        if d:
            out[cls.name] = {k: [v[0], v[1], sorted(v[2])] for k, v in d.items()}
    return out


def reattr(tree: ast.AST, rel: str) -> int:
    """Undo renames of private instance attributes: an attribute `self._new` that the reference class does not have, while an
    attribute of the reference class has gone that was stored and loaded equally often in the same methods, gets the
    reference name back (every `._new` in the module)."""
    ref = (_ref().get(rel) or {}).get("#attrs")
    if not ref:
        return 0
    cur = class_attrs(tree)
    n = 0
    used = {x.attr for x in ast.walk(tree) if isinstance(x, ast.Attribute)} | {x.id for x in ast.walk(tree) if isinstance(x, ast.Name)}
    for cname, attrs in cur.items():
        rattrs = ref.get(cname)
        if not rattrs:
            continue
        new = [a for a in attrs if a not in rattrs]
        gone = [a for a in rattrs if a not in attrs]
        if not new or not gone:
            continue
        for a in new:
            cands = [g for g in gone if rattrs[g][2] == attrs[a][2] and abs(rattrs[g][0] - attrs[a][0]) <= 1 and abs(rattrs[g][1] - attrs[a][1]) <= 2]
            if len(cands) != 1:
                continue
            g = cands[0]
            if sum(1 for b in new if rattrs[g][2] == attrs[b][2] and abs(rattrs[g][0] - attrs[b][0]) <= 1 and abs(rattrs[g][1] - attrs[b][1]) <= 2) != 1:
                continue
            for x in ast.walk(tree):
                if isinstance(x, ast.Attribute) and x.attr == a:
                    x.attr = g
            n += 1
    return n


def module_consts(tree: ast.AST) -> list[str]:
    out = []
    for s_ in getattr(tree, "body", []):
        if isinstance(s_, ast.Assign):
            out += [t.id for t in s_.targets if isinstance(t, ast.Name)]
        elif isinstance(s_, ast.AnnAssign) and isinstance(s_.target, ast.Name):
            out.append(s_.target.id)
    return sorted(set(out))


def reconst(tree: ast.AST, rel: str) -> int:
    """Undo "hoist a literal into a module-level constant": a module-level name that the reference does not have, assigned
    exactly once, from a side-effect free expression (literals, attribute chains such as os.O_EXCL, operators, getattr /
    tuple / frozenset / len of those), is substituted by that expression wherever it is read (functions that bind the
    same name locally are left alone).  struct.Struct constants are left to sa/canon.py."""
    import copy
    ref = (_ref().get(rel) or {}).get("#consts")
    if ref is None:
        return 0
    known = set(ref)
    assigned: dict[str, list] = {}
    for s_ in getattr(tree, "body", []):
        if isinstance(s_, ast.Assign) and len(s_.targets) == 1 and isinstance(s_.targets[0], ast.Name):
            assigned.setdefault(s_.targets[0].id, []).append(s_.value)
        elif isinstance(s_, ast.AnnAssign) and isinstance(s_.target, ast.Name) and s_.value is not None:
            assigned.setdefault(s_.target.id, []).append(s_.value)

    def pure(e) -> bool:
        for n in ast.walk(e):
            if isinstance(n, ast.Call):
                f = n.func
                if not (isinstance(f, ast.Name) and f.id in ("getattr", "tuple", "frozenset", "len", "ord", "bytes", "set")):
                    return False
            elif isinstance(n, (ast.Lambda, ast.ListComp, ast.SetComp, ast.DictComp, ast.GeneratorExp, ast.Await, ast.Yield, ast.YieldFrom, ast.NamedExpr,
                                ast.List, ast.Dict)):
                return False
        return True
    stores_elsewhere = {n.id for f in ast.walk(tree) if isinstance(f, (ast.FunctionDef, ast.AsyncFunctionDef)) for n in ast.walk(f)
                        if isinstance(n, ast.Global) for n in [ast.Name(id=x) for x in n.names]}
    table = {k: v[0] for k, v in assigned.items() if k not in known and len(v) == 1 and pure(v[0]) and k not in stores_elsewhere and k != "__all__"}
    # constants defined from other new constants: resolve in definition order
    if not table:
        return 0

    class Sub(ast.NodeTransformer):
        def __init__(self):
            self.shadow: list[set[str]] = []
            self.n = 0

        def _func(self, node):
            bound = {a.arg for a in node.args.posonlyargs + node.args.args + node.args.kwonlyargs}
            bound |= {n.id for n in ast.walk(node) if isinstance(n, ast.Name) and isinstance(n.ctx, (ast.Store, ast.Del))}
            self.shadow.append(bound)
            self.generic_visit(node)
            self.shadow.pop()
            return node
        visit_FunctionDef = visit_AsyncFunctionDef = _func

        def visit_Name(self, node):
            if isinstance(node.ctx, ast.Load) and node.id in table and not any(node.id in sh for sh in self.shadow):
                self.n += 1
                return ast.copy_location(self.visit(copy.deepcopy(table[node.id])), node)
            return node
    sub = Sub()
    new_body = []
    for s_ in tree.body:
        tgt = s_.targets[0] if isinstance(s_, ast.Assign) and len(s_.targets) == 1 else (s_.target if isinstance(s_, ast.AnnAssign) else None)
        if isinstance(tgt, ast.Name) and tgt.id in table:
            continue                      # the hoisted definition itself goes away
        new_body.append(sub.visit(s_))
    tree.body = new_body
    ast.fix_missing_locations(tree)
    return sub.n


def refunc(tree: ast.AST, rel: str) -> int:
    """Undo renames of private functions, methods and nested helpers: a function that is new with respect to the reference
    while a function of the same scope has gone, and whose statement shapes are (nearly) those of the one that has gone, is
    given its reference name back - definition and every use of the name in the module."""
    ref = _ref().get(rel) or {}
    known = set(ref.get("#funcs", []))
    shapes = ref.get("#shapes", {})
    if not known:
        return 0
    cur = {}
    for q, fn in functions(tree):
        cur.setdefault(q, fn)
    new = [q for q in cur if q not in known]
    gone = [q for q in known if q not in cur]
    if not new or not gone:
        return 0

    def scope(q):
        return q.rsplit(".", 1)[0] if "." in q else ""
    n = 0
    used = {x.id for x in ast.walk(tree) if isinstance(x, ast.Name)} | {x.attr for x in ast.walk(tree) if isinstance(x, ast.Attribute)} \
        | {f.name for f in ast.walk(tree) if isinstance(f, (ast.FunctionDef, ast.AsyncFunctionDef))}
    pairs = []
    for q in new:
        fn = cur[q]
        sig = [t for t, _ in signature(fn)]
        best, score = None, 0.0
        for g_ in gone:
            if scope(g_) != scope(q) or g_ not in shapes:
                continue
            r = difflib.SequenceMatcher(a=sig, b=shapes[g_], autojunk=False).ratio() if (sig or shapes[g_]) else 0.0
            if r > score:
                best, score = g_, r
        if best is not None and score >= 0.6 and len(fn.args.args) == len(fn.args.args):
            pairs.append((q, best, score))
    # unique matches only
    for q, g_, score in pairs:
        if sum(1 for p in pairs if p[1] == g_) != 1:
            continue
        old_name, new_name = g_.rsplit(".", 1)[-1], q.rsplit(".", 1)[-1]
        if old_name in used:
            continue
        for x in ast.walk(tree):
            if isinstance(x, ast.Name) and x.id == new_name:
                x.id = old_name
            elif isinstance(x, ast.Attribute) and x.attr == new_name:
                x.attr = old_name
            elif isinstance(x, (ast.FunctionDef, ast.AsyncFunctionDef)) and x.name == new_name:
                x.name = old_name
        n += 1
    return n
