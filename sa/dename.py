"""Alpha-conversion of function-local variable names back to the vocabulary the rules were written in.

Several rules name a local variable of an anchored function (`offset`, `realname`, `left`, ...).  Renaming such a
local changes no behaviour, so it must not change a verdict.  Instead of teaching every rule every possible
spelling, the loader undoes renames before the rules run:

  * `sa/refnames.json.gz` (written by tools/gen_refnames.py from the tree the rules were confirmed on) holds, per
    function, the sequence of statement *shapes* (the statement's header unparsed with every local replaced by `_`)
    and, per statement, the locals in order of appearance;
  * at load time the same sequence is computed for the current source, the two are aligned with difflib, and for
    statements with identical shape the i-th local of the current statement is matched with the i-th local of the
    reference statement;
  * a current local is renamed to its reference name when all its matches agree, the mapping is injective, the
    reference name is not otherwise used in the function, and no nested scope captures the variable.

This is a semantics-preserving alpha-conversion of the program under analysis, decided from the current source; the
reference only supplies the preferred names.  Where the function changed so much that nothing aligns, nothing is
renamed and the rules see the source as it is.  Parameters, attributes and globals are never touched.
"""
from __future__ import annotations

import ast
import difflib
import gzip
import json
import os

REF = os.path.join(os.path.dirname(os.path.abspath(__file__)), "refnames.json.gz")
_ref_cache = None


def _ref():
    global _ref_cache
    if _ref_cache is None:
        try:
            with gzip.open(REF, "rt", encoding="utf-8") as f:
                _ref_cache = json.load(f)
        except OSError:
            _ref_cache = {}
    return _ref_cache


_SCOPES = (ast.FunctionDef, ast.AsyncFunctionDef, ast.Lambda, ast.ClassDef)


def _own_nodes(fn):
    """Nodes of fn's body that belong to fn's own scope (nested defs/lambdas/classes are opaque)."""
    stack = list(reversed(fn.body))
    while stack:
        n = stack.pop()
        yield n
        if isinstance(n, _SCOPES):
            continue
        stack.extend(reversed(list(ast.iter_child_nodes(n))))


def locals_of(fn) -> set[str]:
    """Names stored in fn's own scope, minus parameters and declared globals/nonlocals."""
    stored, declared = set(), set()
    for n in _own_nodes(fn):
        if isinstance(n, ast.Name) and isinstance(n.ctx, (ast.Store, ast.Del)):
            stored.add(n.id)
        elif isinstance(n, (ast.Global, ast.Nonlocal)):
            declared.update(n.names)
        elif isinstance(n, ast.ExceptHandler) and n.name:
            declared.add(n.name)        # bound by the handler, not an ast.Name: leave alone
        elif isinstance(n, (ast.MatchAs, ast.MatchStar)) and n.name:
            declared.add(n.name)
        elif isinstance(n, ast.MatchMapping) and n.rest:
            declared.add(n.rest)
        elif isinstance(n, (ast.Import, ast.ImportFrom)):
            for a in n.names:
                declared.add((a.asname or a.name).split(".")[0])
    a = fn.args
    params = {x.arg for x in a.posonlyargs + a.args + a.kwonlyargs} | ({a.vararg.arg} if a.vararg else set()) | ({a.kwarg.arg} if a.kwarg else set())
    # comprehension targets live in their own scope
    comp = set()
    for n in _own_nodes(fn):
        if isinstance(n, ast.comprehension):
            comp |= {x.id for x in ast.walk(n.target) if isinstance(x, ast.Name)}
    return stored - declared - params - comp


def _captured(fn) -> set[str]:
    """Names mentioned inside nested scopes of fn (a rename would have to follow them there: not attempted)."""
    out = set()
    for n in _own_nodes(fn):
        if isinstance(n, _SCOPES):
            out |= {x.id for x in ast.walk(n) if isinstance(x, ast.Name)}
            out |= {x.arg for x in ast.walk(n) if isinstance(x, ast.arg)}
    return out


class _Shape(ast.NodeTransformer):
    def __init__(self, loc):
        self.loc = loc
        self.seq = []

    def visit_Name(self, node):
        if node.id in self.loc:
            self.seq.append(node.id)
            return ast.copy_location(ast.Name(id="_", ctx=node.ctx), node)
        return node

    def generic_visit(self, node):
        if isinstance(node, _SCOPES):
            return node
        return super().generic_visit(node)


def _header(stmt: ast.stmt) -> ast.AST:
    """The statement without nested statement lists (those are visited on their own)."""
    import copy
    s = copy.copy(stmt)
    for f in ("body", "orelse", "finalbody", "handlers", "cases"):
        if hasattr(s, f) and isinstance(getattr(s, f), list):
            setattr(s, f, [ast.Pass()] if f == "body" else [])
    return s


def _statements(fn):
    """Own statements of fn in source order (compound statements contribute their header)."""
    out = []

    def rec(stmts):
        for s in stmts:
            if isinstance(s, _SCOPES):
                continue
            out.append(s)
            for f in ("body", "orelse", "finalbody"):
                if isinstance(getattr(s, f, None), list):
                    rec(getattr(s, f))
            for h in getattr(s, "handlers", []) or []:
                rec(h.body)
            for c in getattr(s, "cases", []) or []:
                rec(c.body)
    rec(fn.body)
    return out


def signature(fn) -> list[tuple[str, list[str]]]:
    """[(shape text, [locals in order of appearance])] for every own statement of fn."""
    import copy
    loc = locals_of(fn)
    sig = []
    for s in _statements(fn):
        h = copy.deepcopy(_header(s))
        sh = _Shape(loc)
        h = sh.visit(h)
        try:
            txt = ast.unparse(h)
        except Exception:
            txt = type(s).__name__
        sig.append((txt, sh.seq))
    return sig


def functions(tree):
    """(qualname, node) for every function of a module, nested ones as `outer.<locals>.inner`."""
    out = []

    def rec(node, prefix):
        for ch in ast.iter_child_nodes(node):
            if isinstance(ch, (ast.FunctionDef, ast.AsyncFunctionDef)):
                out.append((prefix + ch.name, ch))
                rec(ch, prefix + ch.name + ".<locals>.")
            elif isinstance(ch, ast.ClassDef):
                rec(ch, prefix + ch.name + ".")
            elif isinstance(ch, (ast.If, ast.Try, ast.With, ast.For, ast.While)):
                rec(ch, prefix)
    rec(tree, "")
    return out


class _Rename(ast.NodeTransformer):
    def __init__(self, mapping, deep=frozenset()):
        self.m = mapping
        self.deep = set(deep)       # names that nested scopes share with the function (closure variables): renamed there too
        self.depth = 0

    def visit_Name(self, node):
        if node.id in self.m and (self.depth == 0 or node.id in self.deep):
            return ast.copy_location(ast.Name(id=self.m[node.id], ctx=node.ctx), node)
        return node

    def visit_Nonlocal(self, node):
        node.names = [self.m[n] if (n in self.m and n in self.deep) else n for n in node.names]
        return node

    def generic_visit(self, node):
        if isinstance(node, _SCOPES):
            if not self.deep:
                return node
            self.depth += 1
            try:
                return super().generic_visit(node)
            finally:
                self.depth -= 1
        return super().generic_visit(node)


def _shared_ok(fn) -> set[str]:
    """Closure variables that every nested scope only reads, or re-binds under `nonlocal`: safe to rename everywhere."""
    bad, seen = set(), set()
    for n in _own_nodes(fn):
        if not isinstance(n, _SCOPES):
            continue
        inner = list(ast.walk(n))
        names = {x.id for x in inner if isinstance(x, ast.Name)}
        seen |= names
        nonlocal_ = {nm for x in inner if isinstance(x, ast.Nonlocal) for nm in x.names}
        params = {a.arg for x in inner if isinstance(x, ast.arguments) for a in x.posonlyargs + x.args + x.kwonlyargs} | \
                 {x.vararg.arg for x in inner if isinstance(x, ast.arguments) and x.vararg} | {x.kwarg.arg for x in inner if isinstance(x, ast.arguments) and x.kwarg}
        stored = {x.id for x in inner if isinstance(x, ast.Name) and isinstance(x.ctx, (ast.Store, ast.Del))}
        comp = {y.id for x in inner if isinstance(x, ast.comprehension) for y in ast.walk(x.target) if isinstance(y, ast.Name)}
        bad |= params | comp | (stored - nonlocal_)
        if isinstance(n, ast.ClassDef):
            bad |= names
    return seen - bad


def dename(tree: ast.AST, rel: str, src_digest: str | None = None) -> int:
    """Rename locals of the functions in `tree` (in place) to their reference names.  Returns the number of renames."""
    ref = _ref().get(rel)
    if not ref:
        return 0
    if src_digest is not None and ref.get("#digest") == src_digest:
        return 0        # the file is byte-identical to the one the names were taken from
    total = 0
    seen = {}
    for q, fn in functions(tree):
        seen[q] = seen.get(q, 0) + 1
        key = q if seen[q] == 1 else f"{q}#{seen[q]}"
        r = ref.get(key)
        if not r:
            continue
        cur = signature(fn)
        if [c for c in cur] == [tuple(x) if isinstance(x, tuple) else (x[0], x[1]) for x in r]:
            continue
        cur_shapes = [c[0] for c in cur]
        ref_shapes = [x[0] for x in r]
        votes: dict[str, dict[str, int]] = {}
        sm = difflib.SequenceMatcher(a=cur_shapes, b=ref_shapes, autojunk=False)
        for blk in sm.get_matching_blocks():
            for k in range(blk.size):
                cn, rn = cur[blk.a + k][1], r[blk.b + k][1]
                if len(cn) != len(rn):
                    continue
                for a_, b_ in zip(cn, rn):
                    votes.setdefault(a_, {}).setdefault(b_, 0)
                    votes[a_][b_] += 1
        loc = locals_of(fn)
        captured = _captured(fn)
        shared = _shared_ok(fn) if captured else set()
        all_names = {x.id for x in _own_nodes(fn) if isinstance(x, ast.Name)} | captured
        mapping = {}
        for a_, v in votes.items():
            if len(v) != 1:
                continue
            b_ = next(iter(v))
            if a_ == b_ or a_ not in loc or (a_ in captured and a_ not in shared):
                continue
            mapping[a_] = b_
        # injective, and the new name is free in the function (or is itself renamed away)
        targets = list(mapping.values())
        mapping = {a_: b_ for a_, b_ in mapping.items() if targets.count(b_) == 1 and (b_ not in all_names or b_ in mapping)}
        # a chain a->b, b->c is fine when applied simultaneously; a target that is still in use is not
        mapping = {a_: b_ for a_, b_ in mapping.items() if b_ not in all_names or b_ in mapping}
        if not mapping:
            continue
        rn = _Rename(mapping, deep={a_ for a_ in mapping if a_ in captured})
        fn.body = [rn.visit(s) for s in fn.body]
        total += len(mapping)
    return total


def build_reference(root: str, rels: list[str]) -> dict:
    out = {}
    for rel in rels:
        with open(os.path.join(root, rel), encoding="utf-8") as f:
            src = f.read()
        tree = ast.parse(src, filename=rel)
        import hashlib
        d = {"#digest": hashlib.sha256(src.encode("utf-8")).hexdigest()}
        seen = {}
        for q, fn in functions(tree):
            seen[q] = seen.get(q, 0) + 1
            key = q if seen[q] == 1 else f"{q}#{seen[q]}"
            sig = signature(fn)
            if any(names for _, names in sig):
                d[key] = [[t, n] for t, n in sig]
        d["#funcs"] = sorted({q for q, _ in functions(tree)})
        d["#shapes"] = {q: [t for t, _ in signature(fn)] for q, fn in functions(tree)}
        out[rel] = d
    return out


def refunc(tree: ast.AST, rel: str) -> int:
    """Undo renames of private functions, methods and nested helpers: a function that is new with respect to the reference
    while a function of the same scope has gone, and whose statement shapes are (nearly) those of the one that has gone, is
    given its reference name back - definition and every use of the name in the module."""
    ref = _ref().get(rel) or {}
    known = set(ref.get("#funcs", []))
    shapes = ref.get("#shapes", {})
    if not known:
        return 0
    cur = {}
    for q, fn in functions(tree):
        cur.setdefault(q, fn)
    new = [q for q in cur if q not in known]
    gone = [q for q in known if q not in cur]
    if not new or not gone:
        return 0

    def scope(q):
        return q.rsplit(".", 1)[0] if "." in q else ""
    n = 0
    used = {x.id for x in ast.walk(tree) if isinstance(x, ast.Name)} | {x.attr for x in ast.walk(tree) if isinstance(x, ast.Attribute)} \
        | {f.name for f in ast.walk(tree) if isinstance(f, (ast.FunctionDef, ast.AsyncFunctionDef))}
    pairs = []
    for q in new:
        fn = cur[q]
        sig = [t for t, _ in signature(fn)]
        best, score = None, 0.0
        for g_ in gone:
            if scope(g_) != scope(q) or g_ not in shapes:
                continue
            r = difflib.SequenceMatcher(a=sig, b=shapes[g_], autojunk=False).ratio() if (sig or shapes[g_]) else 0.0
            if r > score:
                best, score = g_, r
        if best is not None and score >= 0.6 and len(fn.args.args) == len(fn.args.args):
            pairs.append((q, best, score))
    # unique matches only
    for q, g_, score in pairs:
        if sum(1 for p in pairs if p[1] == g_) != 1:
            continue
        old_name, new_name = g_.rsplit(".", 1)[-1], q.rsplit(".", 1)[-1]
        if old_name in used:
            continue
        for x in ast.walk(tree):
            if isinstance(x, ast.Name) and x.id == new_name:
                x.id = old_name
            elif isinstance(x, ast.Attribute) and x.attr == new_name:
                x.attr = old_name
            elif isinstance(x, (ast.FunctionDef, ast.AsyncFunctionDef)) and x.name == new_name:
                x.name = old_name
        n += 1
    return n
