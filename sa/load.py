"""Source loader: parses /repo's current working tree on every run.

Gives every rule the same view of the program: modules as ``ast`` trees with
parent links, a qualified-name index of functions (methods, nested defs), the
class hierarchy by name, and module-level constant bindings.  Nothing is
imported or executed.  ``overrides`` ({relative path: source}) lets the
self-test analyse an edited variant without touching the disk.
"""
from __future__ import annotations

import ast
import hashlib
import os
from dataclasses import dataclass, field

REPO = os.environ.get("VERIF_REPO", "/repo")

EXCLUDE_DIRS = {"tests", "__pycache__"}


class AnalysisError(Exception):
    """The analysis itself could not be carried out (exit code 2)."""


@dataclass
class Func:
    module: "Module"
    qual: str                 # e.g. DiskRefsContainer.set_if_equals, add_pack.<locals>.commit
    node: ast.AST
    cls: str | None           # innermost enclosing class name
    parent: "Func | None" = None

    @property
    def name(self) -> str:
        return self.node.name

    @property
    def where(self) -> str:
        return f"{self.module.rel}:{self.qual}"

    def __hash__(self):
        return id(self)

    def __eq__(self, other):
        return self is other


@dataclass
class Class:
    module: "Module"
    name: str
    node: ast.ClassDef
    bases: list[str]


def _drop_absorbed(node, prefix, absorbed):
    """Remove the definitions of helpers that sa/deextract.py inlined back at every call site: their code is analysed where
    it is used, and rules that walk the whole module tree must not see it twice."""
    for field in ("body", "orelse", "finalbody"):
        lst = getattr(node, field, None)
        if not isinstance(lst, list):
            continue
        keep = []
        for ch in lst:
            if isinstance(ch, (ast.FunctionDef, ast.AsyncFunctionDef)):
                q = f"{prefix}{ch.name}"
                if q in absorbed:
                    continue
                _drop_absorbed(ch, q + ".<locals>.", absorbed)
            elif isinstance(ch, ast.ClassDef):
                _drop_absorbed(ch, f"{prefix}{ch.name}.", absorbed)
            else:
                _drop_absorbed(ch, prefix, absorbed)
            keep.append(ch)
        if not keep and lst and field == "body":
            keep = [ast.copy_location(ast.Pass(), lst[0])]
        setattr(node, field, keep)
    for h in getattr(node, "handlers", []) or []:
        _drop_absorbed(h, prefix, absorbed)


class Module:
    def __init__(self, rel: str, src: str):
        self.rel = rel
        self.src = src
        try:
            self.tree = ast.parse(src, filename=rel)
        except SyntaxError as e:  # pragma: no cover
            raise AnalysisError(f"cannot parse {rel}: {e}")
        self.deextracted = 0
        self.absorbed: set[str] = set()
        digest = hashlib.sha256(src.encode("utf-8")).hexdigest()
        if not os.environ.get("VERIF_NO_DEEXTRACT"):
            from sa.dename import _ref
            if (_ref().get(rel) or {}).get("#digest") != digest:
                from sa.dename import refunc, reattr, reconst
                self.refunced = refunc(self.tree, rel)
                self.reattred = reattr(self.tree, rel)
                self.reconsted = reconst(self.tree, rel)
                from sa.deextract import deextract
                self.deextracted, self.absorbed = deextract(self.tree, rel)
                if self.absorbed:
                    _drop_absorbed(self.tree, "", self.absorbed)
        self.denamed = 0
        if not os.environ.get("VERIF_NO_DENAME"):
            from sa.dename import dename
            self.denamed = dename(self.tree, rel, hashlib.sha256(src.encode("utf-8")).hexdigest())
            if self.denamed is not None and (_refd := __import__("sa.dename", fromlist=["_ref"])._ref().get(rel) or {}).get("#digest") != digest \
                    and not os.environ.get("VERIF_NO_DETEMP"):
                from sa.dename import detemp
                self.detemped = detemp(self.tree, rel)
        if not os.environ.get("VERIF_NO_CANON"):
            from sa.canon import canonicalise
            self.tree = canonicalise(self.tree)
        self.parents: dict[ast.AST, ast.AST] = {}
        for n in ast.walk(self.tree):
            for c in ast.iter_child_nodes(n):
                self.parents[c] = n
        self.funcs: dict[str, Func] = {}
        self.classes: dict[str, Class] = {}
        self.func_of_node: dict[ast.AST, Func] = {}
        self._index(self.tree, "", None, None)
        self.consts: dict[str, ast.AST] = {}
        for s in self.tree.body:
            if isinstance(s, ast.Assign) and len(s.targets) == 1 and isinstance(s.targets[0], ast.Name):
                self.consts[s.targets[0].id] = s.value
            elif isinstance(s, ast.AnnAssign) and isinstance(s.target, ast.Name) and s.value is not None:
                self.consts[s.target.id] = s.value
        # import map: local name -> dotted origin
        self.imports: dict[str, str] = {}
        for n in ast.walk(self.tree):
            if isinstance(n, ast.Import):
                for a in n.names:
                    self.imports[a.asname or a.name.split(".")[0]] = a.name if a.asname else a.name.split(".")[0]
            elif isinstance(n, ast.ImportFrom):
                base = ("." * n.level) + (n.module or "")
                for a in n.names:
                    self.imports[a.asname or a.name] = f"{base}.{a.name}"

    def _index(self, node, prefix, cls, parent_func):
        for ch in ast.iter_child_nodes(node):
            if isinstance(ch, (ast.FunctionDef, ast.AsyncFunctionDef)):
                q = f"{prefix}{ch.name}"
                if q in self.absorbed:
                    continue        # a newly extracted helper that was inlined back at every call site (sa/deextract.py)
                # overloads / redefinitions: keep the last, but also index by suffix #n
                f = Func(self, q, ch, cls, parent_func)
                if q in self.funcs:
                    k = 2
                    while f"{q}#{k}" in self.funcs:
                        k += 1
                    # the *later* definition wins the plain name (Python semantics)
                    self.funcs[f"{q}#{k}"] = self.funcs[q]
                self.funcs[q] = f
                self.func_of_node[ch] = f
                self._index(ch, q + ".<locals>.", cls, f)
            elif isinstance(ch, ast.ClassDef):
                bases = []
                for b in ch.bases:
                    if isinstance(b, ast.Name):
                        bases.append(b.id)
                    elif isinstance(b, ast.Attribute):
                        bases.append(b.attr)
                    elif isinstance(b, ast.Subscript):
                        v = b.value
                        bases.append(v.id if isinstance(v, ast.Name) else getattr(v, "attr", "?"))
                self.classes[f"{prefix}{ch.name}"] = Class(self, ch.name, ch, bases)
                self._index(ch, f"{prefix}{ch.name}.", ch.name, parent_func)
            else:
                self._index(ch, prefix, cls, parent_func)

    def enclosing_func(self, node: ast.AST) -> Func | None:
        n = node
        while n in self.parents:
            n = self.parents[n]
            if n in self.func_of_node:
                return self.func_of_node[n]
        return None

    def enclosing_stmt(self, node: ast.AST) -> ast.stmt:
        n = node
        while not isinstance(n, ast.stmt):
            n = self.parents[n]
        return n

    def line(self, node) -> int:
        return getattr(node, "lineno", 0)


class Program:
    def __init__(self, root: str | None = None, overrides: dict[str, str] | None = None,
                 package: str = "dulwich"):
        self.root = root or REPO
        self.overrides = overrides or {}
        self.modules: dict[str, Module] = {}
        self.package = package
        pkg_dir = os.path.join(self.root, package)
        if not os.path.isdir(pkg_dir):
            raise AnalysisError(f"{pkg_dir} does not exist")
        for dirpath, dirnames, filenames in os.walk(pkg_dir):
            dirnames[:] = sorted(d for d in dirnames if d not in EXCLUDE_DIRS)
            for fn in sorted(filenames):
                if not fn.endswith(".py"):
                    continue
                full = os.path.join(dirpath, fn)
                rel = os.path.relpath(full, self.root)
                if rel in self.overrides:
                    src = self.overrides[rel]
                else:
                    with open(full, encoding="utf-8") as f:
                        src = f.read()
                self.modules[rel] = Module(rel, src)
        for rel, src in self.overrides.items():
            if rel not in self.modules and rel.endswith(".py"):
                self.modules[rel] = Module(rel, src)
        # class index by simple name
        self.classes: dict[str, list[Class]] = {}
        for m in self.modules.values():
            for c in m.classes.values():
                self.classes.setdefault(c.name, []).append(c)
        self._sub_cache: dict[str, set[str]] = {}

    # -- files outside the python package (Rust crates etc.)
    def read_text(self, rel: str) -> str:
        if rel in self.overrides:
            return self.overrides[rel]
        p = os.path.join(self.root, rel)
        if not os.path.exists(p):
            raise AnalysisError(f"anchor file {rel} does not exist")
        with open(p, encoding="utf-8") as f:
            return f.read()

    def digest(self) -> str:
        h = hashlib.sha256()
        for rel in sorted(self.modules):
            h.update(rel.encode())
            h.update(self.modules[rel].src.encode())
        return h.hexdigest()[:16]

    # -- lookup
    def module(self, rel: str) -> Module:
        if rel not in self.modules:
            raise AnalysisError(f"anchor module {rel} not found")
        return self.modules[rel]

    def func(self, rel: str, qual: str) -> Func:
        m = self.module(rel)
        if qual not in m.funcs:
            raise AnalysisError(f"anchor function {rel}:{qual} not found")
        return m.funcs[qual]

    def func_opt(self, rel: str, qual: str) -> Func | None:
        m = self.modules.get(rel)
        return m.funcs.get(qual) if m else None

    def all_funcs(self):
        for m in self.modules.values():
            for q, f in m.funcs.items():
                if "#" in q:
                    continue
                yield f

    def subclasses(self, name: str) -> set[str]:
        """All class names that transitively inherit from ``name`` (by simple name), inclusive."""
        if name in self._sub_cache:
            return self._sub_cache[name]
        out = {name}
        changed = True
        while changed:
            changed = False
            for cname, lst in self.classes.items():
                if cname in out:
                    continue
                for c in lst:
                    if any(b in out for b in c.bases):
                        out.add(cname)
                        changed = True
                        break
        self._sub_cache[name] = out
        return out

    def bases_of(self, name: str) -> list[str]:
        """Linearised ancestors (approximate MRO: DFS, left to right), exclusive of ``name``."""
        out: list[str] = []
        seen = {name}

        def rec(n):
            for c in self.classes.get(n, []):
                for b in c.bases:
                    if b not in seen:
                        seen.add(b)
                        out.append(b)
                        rec(b)
        rec(name)
        return out

    def method(self, cls: str, name: str) -> Func | None:
        """Resolve ``cls.name`` through the hierarchy (first definition along the linearised ancestors)."""
        for cn in [cls] + self.bases_of(cls):
            for c in self.classes.get(cn, []):
                f = c.module.funcs.get(f"{cn}.{name}")
                if f is not None:
                    return f
        return None

    def methods_named(self, name: str) -> list[Func]:
        """Every function called ``name`` that is a direct member of a class body."""
        return [f for f in self.all_funcs()
                if f.name == name and isinstance(f.module.parents.get(f.node), ast.ClassDef)]


# ---------------------------------------------------------------- small AST helpers

def callee_name(call: ast.AST) -> str | None:
    if not isinstance(call, ast.Call):
        return None
    f = call.func
    if isinstance(f, ast.Name):
        return f.id
    if isinstance(f, ast.Attribute):
        return f.attr
    return None


def dotted(e: ast.AST) -> str | None:
    """``a.b.c`` for Name/Attribute chains, else None."""
    parts = []
    while isinstance(e, ast.Attribute):
        parts.append(e.attr)
        e = e.value
    if isinstance(e, ast.Name):
        parts.append(e.id)
        return ".".join(reversed(parts))
    return None


def norm(node: ast.AST, limit: int = 160) -> str:
    """Normalised source text of a node (position independent)."""
    try:
        s = ast.unparse(node)
    except Exception:  # pragma: no cover
        s = ast.dump(node)
    s = " ".join(s.split())
    return s if len(s) <= limit else s[: limit - 3] + "..."


def stmt_head(node: ast.AST, limit: int = 120) -> str:
    """First line of a (possibly compound) statement, normalised."""
    if isinstance(node, (ast.If, ast.While)):
        return norm(node.test, limit)
    if isinstance(node, (ast.For, ast.AsyncFor)):
        return f"for {norm(node.target, 40)} in {norm(node.iter, limit)}"
    if isinstance(node, (ast.With, ast.AsyncWith)):
        return "with " + ", ".join(norm(i.context_expr, limit) for i in node.items)
    if isinstance(node, ast.Try):
        return "try"
    if isinstance(node, (ast.FunctionDef, ast.AsyncFunctionDef)):
        return f"def {node.name}"
    if isinstance(node, ast.ClassDef):
        return f"class {node.name}"
    if isinstance(node, ast.ExceptHandler):
        return "except " + (norm(node.type, 60) if node.type is not None else "")
    return norm(node, limit)


def arg_of(call: ast.Call, pos: int | None, kw: str | None) -> ast.AST | None:
    """The argument passed at positional index ``pos`` or by keyword ``kw``."""
    if kw is not None:
        for k in call.keywords:
            if k.arg == kw:
                return k.value
    if pos is not None and pos < len(call.args) and not any(isinstance(a, ast.Starred) for a in call.args[: pos + 1]):
        return call.args[pos]
    return None


def walk_no_nested(node: ast.AST):
    """``ast.walk`` that does not descend into nested function/class/lambda bodies."""
    todo = [node]
    first = True
    while todo:
        n = todo.pop()
        if not first and isinstance(n, (ast.FunctionDef, ast.AsyncFunctionDef, ast.ClassDef, ast.Lambda)):
            yield n  # the definition itself is visible, its body is not
            continue
        first = False
        yield n
        todo.extend(ast.iter_child_nodes(n))


def calls_in(node: ast.AST):
    for n in walk_no_nested(node):
        if isinstance(n, ast.Call):
            yield n


def names_in(e: ast.AST) -> set[str]:
    return {n.id for n in ast.walk(e) if isinstance(n, ast.Name)}


def is_none(e: ast.AST | None) -> bool:
    return isinstance(e, ast.Constant) and e.value is None


def params(fn: ast.AST) -> list[str]:
    a = fn.args
    out = [x.arg for x in a.posonlyargs + a.args]
    if a.vararg:
        out.append(a.vararg.arg)
    out += [x.arg for x in a.kwonlyargs]
    if a.kwarg:
        out.append(a.kwarg.arg)
    return out
