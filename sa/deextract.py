"""Undo "extract method / extract helper" before the rules run.

The rules anchor obligations in the functions that implemented a clause when the rules were confirmed
(`sa/refnames.json.gz` lists them).  Moving a block of such a function into a NEW private helper changes no
behaviour, so it must not change a verdict.  This pass inlines, at load time and in memory only, every call of a
function that did not exist in the reference tree into its caller:

  * callee: a module-level function, a method of the caller's class (called through `self.`/`cls.`/the class name) or
    a function nested in the caller, that is absent from the reference, is not recursive, and takes no *args/**kwargs;
  * call site: an expression statement, `x = call`, `return call`, `yield from call` (also assigned);
  * parameters are substituted by the argument when the argument is a plain name / attribute chain / constant and the
    parameter is never re-bound in the callee, otherwise bound to a fresh local first;
  * `return e`: in return position kept as it is; in `x = call` position turned into `x = e` (with a one-trip `for` and
    `break` when the callee returns early, provided no return sits inside a loop of the callee); otherwise the call is
    left alone.

Inlining is transitive (a new helper calling a new helper) up to a small depth.  On a tree without new functions the
pass does nothing.  It is an approximation made for analysis only: evaluation order of arguments that are substituted
is not preserved, which none of the rules observes.
"""
from __future__ import annotations

import ast
import copy

from sa.dename import _ref, functions

_MAX_DEPTH = 3
_SIMPLE = (ast.Name, ast.Constant, ast.Attribute)


def _is_simple(e: ast.AST) -> bool:
    while isinstance(e, ast.Attribute):
        e = e.value
    return isinstance(e, (ast.Name, ast.Constant))


def _own_walk(fn):
    stack = list(fn.body)
    while stack:
        n = stack.pop()
        yield n
        if isinstance(n, (ast.FunctionDef, ast.AsyncFunctionDef, ast.Lambda, ast.ClassDef)):
            continue
        stack.extend(ast.iter_child_nodes(n))


def _stored_names(fn) -> set[str]:
    return {n.id for n in _own_walk(fn) if isinstance(n, ast.Name) and isinstance(n.ctx, (ast.Store, ast.Del))}


def _returns(fn):
    return [n for n in _own_walk(fn) if isinstance(n, ast.Return)]


def _return_in_loop(fn) -> bool:
    def rec(stmts, in_loop):
        for s in stmts:
            if isinstance(s, (ast.FunctionDef, ast.AsyncFunctionDef, ast.ClassDef)):
                continue
            if isinstance(s, ast.Return) and in_loop:
                return True
            loop = in_loop or isinstance(s, (ast.For, ast.While, ast.AsyncFor))
            for f in ("body", "orelse", "finalbody"):
                if isinstance(getattr(s, f, None), list) and rec(getattr(s, f), loop if f == "body" else in_loop):
                    return True
            for h in getattr(s, "handlers", []) or []:
                if rec(h.body, in_loop):
                    return True
        return False
    return rec(fn.body, False)


class _Subst(ast.NodeTransformer):
    def __init__(self, mapping: dict[str, ast.AST]):
        self.m = mapping

    def visit_Name(self, node):
        if node.id in self.m:
            new = copy.deepcopy(self.m[node.id])
            if isinstance(new, ast.Name):
                new.ctx = node.ctx
            return ast.copy_location(new, node)
        return node

    def visit_FunctionDef(self, node):
        return node          # nested scopes of the callee keep their own names (rare in helpers)
    visit_AsyncFunctionDef = visit_FunctionDef
    visit_Lambda = visit_FunctionDef


class _RetRewrite(ast.NodeTransformer):
    """return e  ->  <target> = e ; break        (inside the one-trip wrapper loop)"""

    def __init__(self, target, use_break):
        self.target = target
        self.use_break = use_break

    def visit_Return(self, node):
        out = []
        if self.target is not None:
            val = node.value if node.value is not None else ast.Constant(value=None)
            out.append(ast.copy_location(ast.Assign(targets=[copy.deepcopy(self.target)], value=val), node))
        elif node.value is not None:
            out.append(ast.copy_location(ast.Expr(value=node.value), node))
        if self.use_break:
            out.append(ast.copy_location(ast.Break(), node))
        return out or ast.copy_location(ast.Pass(), node)

    def visit_FunctionDef(self, node):
        return node
    visit_AsyncFunctionDef = visit_FunctionDef
    visit_Lambda = visit_FunctionDef


class Deextract:
    def __init__(self, tree, rel):
        self.tree = tree
        ref = _ref().get(rel) or {}
        self.known = set(ref.get("#funcs", []))
        self.funcs = dict()
        self.cls_of = {}
        for q, fn in functions(tree):
            self.funcs.setdefault(q, fn)
        self.new = {q for q in self.funcs if q not in self.known} if self.known else set()
        self.count = 0
        self.counter = 0
        self.inlined = set()
        self.absorbed = set()
        self.cur_names: set[str] = set()

    # ---- resolution of a call to a new function
    def resolve(self, call: ast.Call, caller_q: str):
        f = call.func
        cls_prefix = caller_q.rsplit(".", 1)[0] + "." if "." in caller_q and ".<locals>." not in caller_q.rsplit(".", 1)[0] + "." else None
        # method of the same class
        if isinstance(f, ast.Attribute) and isinstance(f.value, ast.Name):
            base = caller_q.split(".<locals>.")[0]
            if "." in base:
                cname = base.rsplit(".", 1)[0]
                if f.value.id in ("self", "cls", cname.split(".")[-1]):
                    q = f"{cname}.{f.attr}"
                    if q in self.new:
                        return q, f.value
        if isinstance(f, ast.Name):
            # nested in the caller (or in an enclosing function), else module level
            parts = caller_q.split(".<locals>.")
            for k in range(len(parts), 0, -1):
                q = ".<locals>.".join(parts[:k]) + ".<locals>." + f.id
                if q in self.new:
                    return q, None
            if f.id in self.new:
                return f.id, None
        return None, None

    def inlinable(self, q: str, call: ast.Call, ctx: str):
        fn = self.funcs[q]
        a = fn.args
        if a.vararg or a.kwarg or any(isinstance(x, ast.Starred) for x in call.args) or any(k.arg is None for k in call.keywords):
            return False
        if isinstance(fn, ast.AsyncFunctionDef):
            return False
        decos = [ast.unparse(d) for d in fn.decorator_list]
        if any(d not in ("staticmethod", "classmethod") for d in decos):
            return False
        if any(isinstance(c, ast.Call) and isinstance(c.func, (ast.Name, ast.Attribute)) and
               (getattr(c.func, "id", None) == fn.name or getattr(c.func, "attr", None) == fn.name) for c in _own_walk(fn)):
            return False        # (possibly) recursive
        is_gen = any(isinstance(n, (ast.Yield, ast.YieldFrom)) for n in _own_walk(fn))
        if is_gen != (ctx in ("yieldfrom", "yieldfrom-assign")):
            return False
        rets = _returns(fn)
        valued = [r for r in rets if r.value is not None]
        if ctx == "return":
            return True
        last_only = len(rets) == 0 or (len(rets) == 1 and fn.body and fn.body[-1] is rets[0])
        if last_only:
            return True
        return not _return_in_loop(fn)

    def expand(self, q: str, recv, call: ast.Call, ctx: str, target, depth: int):
        fn = copy.deepcopy(self.funcs[q])
        a = fn.args
        params = [x.arg for x in a.posonlyargs + a.args]
        decos = [ast.unparse(d) for d in fn.decorator_list]
        bind: dict[str, ast.AST] = {}
        pre: list[ast.stmt] = []
        args = list(call.args)
        if recv is not None and "staticmethod" not in decos and params:
            bind[params[0]] = recv
            params = params[1:]
        defaults = dict(zip([x.arg for x in (a.posonlyargs + a.args)][-len(a.defaults):] if a.defaults else [], a.defaults))
        kwdefaults = {x.arg: d for x, d in zip(a.kwonlyargs, a.kw_defaults) if d is not None}
        given = dict(zip(params, args))
        for k in call.keywords:
            given[k.arg] = k.value
        rebound = _stored_names(fn)
        self.counter += 1
        for p in params + [x.arg for x in a.kwonlyargs]:
            if p in given:
                v = given[p]
            elif p in defaults:
                v = defaults[p]
            elif p in kwdefaults:
                v = kwdefaults[p]
            else:
                return None
            if _is_simple(v) and p not in rebound:
                bind[p] = v
            else:
                tmp = p if (isinstance(v, ast.Name) and v.id == p) else p
                # bind to a local of the same name: shapes then match code that was moved verbatim
                pre.append(ast.copy_location(ast.Assign(targets=[ast.Name(id=tmp, ctx=ast.Store())], value=copy.deepcopy(v)), call))
        body = [s for s in fn.body if not (isinstance(s, ast.Expr) and isinstance(s.value, ast.Constant) and isinstance(s.value.value, str))]
        # locals of the callee (and parameters bound through an assignment) that would collide with a name the caller already
        # uses - or that an earlier inlining introduced - get a suffix; everything else keeps its name so that code moved
        # verbatim lines up with the reference again
        pre_names = {t.id for a_ in pre for t in a_.targets if isinstance(t, ast.Name)}
        passthrough = {p_ for p_, v_ in given.items() if isinstance(v_, ast.Name) and v_.id == p_}
        # `T = helper(..)` where the helper ends in its only `return T_local` and T_local has the caller's name T: the local IS the
        # target (code moved verbatim into a helper that hands the value back) - keep the name instead of `T_3 = ..; T = T_3`
        keep = set()
        own_rets = [n for n in _own_walk(fn) if isinstance(n, ast.Return)]
        if ctx == "assign" and isinstance(target, ast.Name) and len(own_rets) == 1 and fn.body and fn.body[-1] is own_rets[0] \
                and isinstance(own_rets[0].value, ast.Name) and own_rets[0].value.id == target.id:
            keep.add(target.id)
        for v_ in sorted((rebound | pre_names) - passthrough):
            if v_ in self.cur_names and v_ not in bind and v_ not in keep:
                new_name = f"{v_}_{self.counter}"
                bind[v_] = ast.Name(id=new_name, ctx=ast.Load())
                for a_ in pre:
                    for t in a_.targets:
                        if isinstance(t, ast.Name) and t.id == v_:
                            t.id = new_name
                self.cur_names.add(new_name)
            else:
                self.cur_names.add(v_)
        sub = _Subst(bind)
        body = [sub.visit(s) for s in body]
        rets = [n for s in body for n in ast.walk(s) if isinstance(n, ast.Return)]
        if ctx == "return":
            new = body
            if not (new and isinstance(new[-1], (ast.Return, ast.Raise))):
                new = new + [ast.copy_location(ast.Return(value=None), call)]
        else:
            tgt = target if ctx in ("assign", "yieldfrom-assign") else None
            last_only = len(rets) == 0 or (len(rets) == 1 and body and body[-1] is rets[0])
            rw = _RetRewrite(tgt, use_break=not last_only)
            out = []
            for s in body:
                r = rw.visit(s)
                out.extend(r if isinstance(r, list) else [r])
            if last_only:
                new = out
                if tgt is not None and not rets:
                    new = new + [ast.copy_location(ast.Assign(targets=[copy.deepcopy(tgt)], value=ast.Constant(value=None)), call)]
            else:
                if tgt is not None:
                    out.append(ast.copy_location(ast.Assign(targets=[copy.deepcopy(tgt)], value=ast.Constant(value=None)), call))
                new = [ast.copy_location(ast.For(target=ast.Name(id="_once", ctx=ast.Store()), iter=ast.Tuple(elts=[ast.Constant(value=None)], ctx=ast.Load()),
                                                 body=out or [ast.Pass()], orelse=[]), call)]
        if keep:
            new = [s_ for s_ in new if not (isinstance(s_, ast.Assign) and len(s_.targets) == 1 and isinstance(s_.targets[0], ast.Name)
                                            and isinstance(s_.value, ast.Name) and s_.value.id == s_.targets[0].id)]
        new = pre + (new or [ast.copy_location(ast.Pass(), call)])
        for s in new:
            for n in ast.walk(s):
                if not hasattr(n, "lineno"):
                    ast.copy_location(n, call)
        self.count += 1
        self.inlined.add(q)
        # transitive: the inlined body may itself call new helpers
        if depth < _MAX_DEPTH:
            new = self.rewrite_block(new, q, depth + 1)
        return new

    def expand_cm(self, q: str, recv, call: ast.Call, as_var, body: list, depth: int):
        """`with new_helper(args) [as v]: BODY` where new_helper is a NEW @contextmanager generator of one of the shapes
             pre*; try: yield [e] finally/except..: ...          pre*; yield [e]; post*
        is rewritten to the code it stands for: pre*; [v = e]; try: BODY finally/except ..   /   pre*; [v = e]; BODY; post*"""
        fn = copy.deepcopy(self.funcs[q])
        a = fn.args
        if a.vararg or a.kwarg or any(isinstance(x, ast.Starred) for x in call.args) or any(k.arg is None for k in call.keywords):
            return None
        params = [x.arg for x in a.posonlyargs + a.args]
        bind: dict[str, ast.AST] = {}
        pre: list[ast.stmt] = []
        if recv is not None and params:
            bind[params[0]] = recv
            params = params[1:]
        defaults = dict(zip([x.arg for x in (a.posonlyargs + a.args)][-len(a.defaults):] if a.defaults else [], a.defaults))
        kwdefaults = {x.arg: d for x, d in zip(a.kwonlyargs, a.kw_defaults) if d is not None}
        given = dict(zip(params, list(call.args)))
        for k in call.keywords:
            given[k.arg] = k.value
        rebound = _stored_names(fn)
        for p in params + [x.arg for x in a.kwonlyargs]:
            v = given.get(p, defaults.get(p, kwdefaults.get(p)))
            if v is None:
                return None
            if _is_simple(v) and p not in rebound:
                bind[p] = v
            else:
                pre.append(ast.copy_location(ast.Assign(targets=[ast.Name(id=p, ctx=ast.Store())], value=copy.deepcopy(v)), call))
        stmts = [s for s in fn.body if not (isinstance(s, ast.Expr) and isinstance(s.value, ast.Constant) and isinstance(s.value.value, str))]
        yields = [n for n in _own_walk(fn) if isinstance(n, (ast.Yield, ast.YieldFrom))]
        if len(yields) != 1 or not isinstance(yields[0], ast.Yield):
            return None

        def is_yield_stmt(s_):
            return isinstance(s_, ast.Expr) and s_.value is yields[0]
        idx = next((i for i, s_ in enumerate(stmts) if is_yield_stmt(s_) or (isinstance(s_, ast.Try) and len(s_.body) == 1 and is_yield_stmt(s_.body[0]))), None)
        if idx is None or any(isinstance(n, ast.Return) and n.value is not None for n in _own_walk(fn)):
            return None
        sub = _Subst(bind)
        head = [sub.visit(s_) for s_ in stmts[:idx]]
        tail = [sub.visit(s_) for s_ in stmts[idx + 1:]]
        ys = stmts[idx]
        yv = yields[0].value
        bindv = []
        if as_var is not None:
            bindv = [ast.copy_location(ast.Assign(targets=[copy.deepcopy(as_var)], value=sub.visit(copy.deepcopy(yv)) if yv is not None else ast.Constant(value=None)), call)]
        if isinstance(ys, ast.Try):
            ys = sub.visit(ys)
            ys.body = list(body)
            mid = [ys]
        else:
            mid = list(body)
        new = pre + head + bindv + mid + tail
        for s_ in new:
            for n in ast.walk(s_):
                if not hasattr(n, "lineno"):
                    ast.copy_location(n, call)
        self.count += 1
        self.inlined.add(q)
        self.cur_names |= {n.id for s_ in head + tail for n in ast.walk(s_) if isinstance(n, ast.Name)}
        return new

    def expand_for(self, q: str, recv, call: ast.Call, loop: ast.For, depth: int):
        """`for x in new_generator(args): BODY` where the NEW generator has exactly one `yield e` statement and BODY has no
        break/continue/return of its own: the generator's code with `yield e` replaced by `x = e; BODY`."""
        def own_jumps(stmts):
            for st in stmts:
                for n in ast.walk(st):
                    if isinstance(n, (ast.Return, ast.Break, ast.Continue)):
                        return True
            return False
        if loop.orelse or own_jumps(loop.body):
            return None
        fn = copy.deepcopy(self.funcs[q])
        a = fn.args
        if a.vararg or a.kwarg or fn.decorator_list or any(isinstance(x, ast.Starred) for x in call.args) or any(k.arg is None for k in call.keywords):
            return None
        ys = [n for n in _own_walk(fn) if isinstance(n, (ast.Yield, ast.YieldFrom))]
        if len(ys) != 1 or not isinstance(ys[0], ast.Yield) or ys[0].value is None or any(isinstance(n, ast.Return) and n.value is not None for n in _own_walk(fn)):
            return None
        params = [x.arg for x in a.posonlyargs + a.args]
        bind: dict[str, ast.AST] = {}
        pre: list[ast.stmt] = []
        if recv is not None and params:
            bind[params[0]] = recv
            params = params[1:]
        defaults = dict(zip([x.arg for x in (a.posonlyargs + a.args)][-len(a.defaults):] if a.defaults else [], a.defaults))
        kwdefaults = {x.arg: d for x, d in zip(a.kwonlyargs, a.kw_defaults) if d is not None}
        given = dict(zip(params, list(call.args)))
        for k in call.keywords:
            given[k.arg] = k.value
        rebound = _stored_names(fn)
        for p in params + [x.arg for x in a.kwonlyargs]:
            v = given.get(p, defaults.get(p, kwdefaults.get(p)))
            if v is None:
                return None
            if _is_simple(v) and p not in rebound:
                bind[p] = v
            else:
                pre.append(ast.copy_location(ast.Assign(targets=[ast.Name(id=p, ctx=ast.Store())], value=copy.deepcopy(v)), call))
        self.counter += 1
        for v_ in sorted(rebound - set(bind)):
            if v_ in self.cur_names and not any(isinstance(a_, ast.Assign) and a_.targets[0].id == v_ for a_ in pre):
                bind[v_] = ast.Name(id=f"{v_}_{self.counter}", ctx=ast.Load())
                self.cur_names.add(f"{v_}_{self.counter}")
            else:
                self.cur_names.add(v_)
        sub = _Subst(bind)
        body = [sub.visit(s_) for s_ in fn.body if not (isinstance(s_, ast.Expr) and isinstance(s_.value, ast.Constant) and isinstance(s_.value.value, str))]
        target, consumer = loop.target, loop.body

        class _Y(ast.NodeTransformer):
            def visit_Expr(self_, node):
                if isinstance(node.value, ast.Yield):
                    asg = ast.copy_location(ast.Assign(targets=[copy.deepcopy(target)], value=node.value.value), node)
                    return [asg] + [copy.deepcopy(st) for st in consumer]
                return node

            def visit_FunctionDef(self_, node):
                return node
            visit_Lambda = visit_AsyncFunctionDef = visit_FunctionDef
        out = []
        for s_ in body:
            r = _Y().visit(s_)
            out.extend(r if isinstance(r, list) else [r])
        # a bare `return` of the generator ends the iteration: only accepted as the last statement
        rets = [n for s_ in out for n in ast.walk(s_) if isinstance(n, ast.Return)]
        if rets and not (len(rets) == 1 and out and out[-1] is rets[0]):
            return None
        if rets:
            out = out[:-1]
        new = pre + out
        for s_ in new:
            for n in ast.walk(s_):
                if not hasattr(n, "lineno"):
                    ast.copy_location(n, call)
        self.count += 1
        self.inlined.add(q)
        return new

    def site(self, s: ast.stmt):
        """(call, ctx, target) when the statement is a supported call site."""
        if isinstance(s, ast.Expr) and isinstance(s.value, ast.Call):
            return s.value, "expr", None
        if isinstance(s, ast.Expr) and isinstance(s.value, ast.YieldFrom) and isinstance(s.value.value, ast.Call):
            return s.value.value, "yieldfrom", None
        if isinstance(s, ast.Assign) and len(s.targets) == 1:
            if isinstance(s.value, ast.Call):
                return s.value, "assign", s.targets[0]
            if isinstance(s.value, ast.YieldFrom) and isinstance(s.value.value, ast.Call):
                return s.value.value, "yieldfrom-assign", s.targets[0]
        if isinstance(s, ast.AnnAssign) and s.value is not None and isinstance(s.value, ast.Call):
            return s.value, "assign", s.target
        if isinstance(s, ast.Return) and isinstance(s.value, ast.Call):
            return s.value, "return", None
        return None, None, None

    def rewrite_block(self, stmts, caller_q, depth=0):
        out = []
        for s in stmts:
            if isinstance(s, (ast.FunctionDef, ast.AsyncFunctionDef, ast.ClassDef)):
                out.append(s)
                continue
            # a new helper called inside a larger expression of a simple statement: hoist it into `tmp = helper(..)` first
            if isinstance(s, (ast.Expr, ast.Assign, ast.AugAssign, ast.AnnAssign, ast.Return, ast.If)):
                top, _, _ = self.site(s)
                hoisted = []
                # for an `if`, only its condition is looked at (the arms are rewritten recursively below)
                scope_ = ast.walk(s.test) if isinstance(s, ast.If) else ast.walk(s)
                for c in [c for c in scope_ if isinstance(c, ast.Call) and c is not top]:
                    q, recv = self.resolve(c, caller_q)
                    if q is None or q == caller_q or not self.inlinable(q, c, "assign"):
                        continue
                    fn = self.funcs[q]
                    last = fn.body[-1] if fn.body else None
                    tname = last.value.id if isinstance(last, ast.Return) and isinstance(last.value, ast.Name) else f"_{fn.name.strip('_')}_result"
                    hoisted.append((c, tname))
                if hoisted:
                    class _Rep(ast.NodeTransformer):
                        def visit_Call(self_, node):
                            for c, tname in hoisted:
                                if node is c:
                                    return ast.copy_location(ast.Name(id=tname, ctx=ast.Load()), node)
                            return self_.generic_visit(node)
                    pre = [ast.copy_location(ast.Assign(targets=[ast.Name(id=tname, ctx=ast.Store())], value=c), s) for c, tname in hoisted]
                    if isinstance(s, ast.If):
                        s.test = _Rep().visit(s.test)
                    else:
                        s = _Rep().visit(s)
                    out.extend(self.rewrite_block(pre, caller_q, depth))
                    # `t = E; if t:` with t used nowhere else is `if E:` (same evaluation order): keep the test where rules look for it
                    if isinstance(s, ast.If) and len(hoisted) == 1:
                        t_ = hoisted[0][1]
                        neg = isinstance(s.test, ast.UnaryOp) and isinstance(s.test.op, ast.Not) and isinstance(s.test.operand, ast.Name) and s.test.operand.id == t_
                        plain = isinstance(s.test, ast.Name) and s.test.id == t_
                        lastst = out[-1] if out else None
                        if (plain or neg) and isinstance(lastst, ast.Assign) and len(lastst.targets) == 1 and isinstance(lastst.targets[0], ast.Name) \
                                and lastst.targets[0].id == t_ and t_.endswith("_result") \
                                and not any(isinstance(x, ast.Name) and x.id == t_ for arm in (s.body, s.orelse) for st_ in arm for x in ast.walk(st_)):
                            out.pop()
                            s.test = ast.copy_location(ast.UnaryOp(op=ast.Not(), operand=lastst.value), s.test) if neg else lastst.value
            if isinstance(s, ast.With) and len(s.items) == 1 and isinstance(s.items[0].context_expr, ast.Call):
                q_, recv_ = self.resolve(s.items[0].context_expr, caller_q)
                if q_ is not None and q_ != caller_q and [ast.unparse(d) for d in self.funcs[q_].decorator_list] in (["contextmanager"], ["contextlib.contextmanager"]):
                    inner = self.rewrite_block(s.body, caller_q, depth)
                    new = self.expand_cm(q_, recv_, s.items[0].context_expr, s.items[0].optional_vars, inner, depth)
                    if new is not None:
                        out.extend(new)
                        continue
                    s.body = inner
                    out.append(s)
                    continue
            if isinstance(s, ast.For) and isinstance(s.iter, ast.Call):
                q_, recv_ = self.resolve(s.iter, caller_q)
                if q_ is not None and q_ != caller_q and any(isinstance(n, ast.Yield) for n in _own_walk(self.funcs[q_])):
                    s.body = self.rewrite_block(s.body, caller_q, depth)
                    new = self.expand_for(q_, recv_, s.iter, s, depth)
                    if new is not None:
                        out.extend(new)
                        continue
                    out.append(s)
                    continue
            call, ctx, target = self.site(s)
            if call is not None:
                q, recv = self.resolve(call, caller_q)
                if q is not None and q != caller_q and self.inlinable(q, call, ctx):
                    new = self.expand(q, recv, call, ctx, target, depth)
                    if new is not None:
                        out.extend(new)
                        continue
            for f in ("body", "orelse", "finalbody"):
                if isinstance(getattr(s, f, None), list) and getattr(s, f):
                    setattr(s, f, self.rewrite_block(getattr(s, f), caller_q, depth))
            for h in getattr(s, "handlers", []) or []:
                h.body = self.rewrite_block(h.body, caller_q, depth)
            for c in getattr(s, "cases", []) or []:
                c.body = self.rewrite_block(c.body, caller_q, depth)
            out.append(s)
        return out

    def run(self) -> int:
        if not self.new:
            return 0
        for q, fn in list(self.funcs.items()):
            if q in self.new:
                continue
            self.cur_names = {n.id for n in ast.walk(fn) if isinstance(n, ast.Name)} | {a_.arg for a_ in ast.walk(fn) if isinstance(a_, ast.arg)}
            fn.body = self.rewrite_block(fn.body, q)
        if self.count:
            ast.fix_missing_locations(self.tree)
            # helpers all of whose call sites were inlined are "absorbed": their bodies are analysed where they are used
            remaining = set()
            for q, fn in self.funcs.items():
                for c in [c for c in _own_walk(fn) if isinstance(c, ast.Call)]:
                    qq, _ = self.resolve(c, q)
                    if qq is not None and qq != q and q not in self.new:
                        remaining.add(qq)
            self.absorbed = {q for q in self.inlined if q not in remaining}
        return self.count


def deextract(tree: ast.AST, rel: str):
    d = Deextract(tree, rel)
    n = d.run()
    return n, getattr(d, "absorbed", set())
