"""Canonical form of the syntax tree, applied once at load time.

Rules that look at the shape of an expression or of an if-statement see ONE spelling of each of these families, so a
behaviour-preserving rewrite inside a family cannot change a verdict (selftest/neutral_sweep.py exercises them):

  comparisons   `a > b` -> `b < a`, `a >= b` -> `b <= a`   (single operator; after this only <, <= remain)
                `C == x` -> `x == C` when exactly one side is constant-like (literal, ALL_CAPS name, -literal);
                two side-effect free non-constant operands of == / != are ordered by their text
  updates       `x = x <op> e` -> `x <op>= e`               (plain name or dotted attribute target)
  polarity      `if not c: A else: B` -> `if c: B else: A`  (every two-armed if, also conditional expressions)
  struct        module-level `S = struct.Struct(fmt)`: `S.pack(..)` -> `struct.pack(fmt, ..)`, `S.size` -> `struct.calcsize(fmt)`

Locations are kept (copy_location), so reports still point at the source line.
"""
from __future__ import annotations

import ast

_SWAP = {ast.Gt: ast.Lt, ast.GtE: ast.LtE}
_PURE = (ast.Name, ast.Attribute, ast.Constant, ast.Subscript, ast.Load, ast.UnaryOp, ast.USub, ast.Not, ast.Invert, ast.BinOp, ast.Add,
         ast.Sub, ast.Mult, ast.FloorDiv, ast.Mod, ast.BitAnd, ast.BitOr, ast.BitXor, ast.LShift, ast.RShift, ast.Slice, ast.Tuple)


def _constlike(e: ast.AST) -> bool:
    if isinstance(e, ast.Constant):
        return True
    if isinstance(e, ast.UnaryOp) and isinstance(e.op, ast.USub) and isinstance(e.operand, ast.Constant):
        return True
    last = e.id if isinstance(e, ast.Name) else e.attr if isinstance(e, ast.Attribute) else None
    return bool(last) and len(last) > 1 and last.upper() == last and any(ch.isalpha() for ch in last)


def _pure(e: ast.AST) -> bool:
    return all(isinstance(x, _PURE) for x in ast.walk(e))


def _same_target(t: ast.AST, e: ast.AST) -> bool:
    if isinstance(t, ast.Name):
        return isinstance(e, ast.Name) and e.id == t.id
    if isinstance(t, ast.Attribute):
        return isinstance(e, ast.Attribute) and e.attr == t.attr and _same_target(t.value, e.value)
    return False


class Canon(ast.NodeTransformer):
    def visit_Compare(self, node: ast.Compare):
        self.generic_visit(node)
        if len(node.ops) != 1:
            return node
        op, l, r = node.ops[0], node.left, node.comparators[0]
        if type(op) in _SWAP:
            return ast.copy_location(ast.Compare(left=r, ops=[_SWAP[type(op)]()], comparators=[l]), node)
        if isinstance(op, (ast.Eq, ast.NotEq)):
            cl, cr = _constlike(l), _constlike(r)
            swap = False
            if cl and not cr:
                swap = True
            elif not cl and not cr and _pure(l) and _pure(r) and ast.unparse(r) < ast.unparse(l):
                swap = True
            if swap:
                return ast.copy_location(ast.Compare(left=r, ops=[op], comparators=[l]), node)
        return node

    def visit_Assign(self, node: ast.Assign):
        self.generic_visit(node)
        if len(node.targets) == 1 and isinstance(node.targets[0], (ast.Name, ast.Attribute)) and isinstance(node.value, ast.BinOp) \
                and _same_target(node.targets[0], node.value.left):
            return ast.copy_location(ast.AugAssign(target=node.targets[0], op=node.value.op, value=node.value.right), node)
        return node

    def visit_If(self, node: ast.If):
        self.generic_visit(node)
        t = node.test
        if node.orelse and isinstance(t, ast.UnaryOp) and isinstance(t.op, ast.Not):
            return ast.copy_location(ast.If(test=t.operand, body=node.orelse, orelse=node.body), node)
        return node

    def visit_IfExp(self, node: ast.IfExp):
        self.generic_visit(node)
        t = node.test
        if isinstance(t, ast.UnaryOp) and isinstance(t.op, ast.Not):
            return ast.copy_location(ast.IfExp(test=t.operand, body=node.orelse, orelse=node.body), node)
        return node


class StructConst(ast.NodeTransformer):
    """`S = struct.Struct(fmt)` at module level: S.pack(a..) -> struct.pack(fmt, a..), S.unpack(b) -> struct.unpack(fmt, b),
    S.unpack_from / S.pack_into / S.iter_unpack likewise, S.size -> struct.calcsize(fmt)."""

    def __init__(self, table):
        self.t = table

    def _struct(self, attr, node):
        return ast.copy_location(ast.Attribute(value=ast.Name(id="struct", ctx=ast.Load()), attr=attr, ctx=ast.Load()), node)

    def visit_Call(self, node):
        self.generic_visit(node)
        f = node.func
        if isinstance(f, ast.Attribute) and isinstance(f.value, ast.Name) and f.value.id in self.t \
                and f.attr in ("pack", "unpack", "unpack_from", "pack_into", "iter_unpack"):
            import copy
            return ast.copy_location(ast.Call(func=self._struct(f.attr, node), args=[copy.deepcopy(self.t[f.value.id])] + node.args,
                                              keywords=node.keywords), node)
        return node

    def visit_Attribute(self, node):
        self.generic_visit(node)
        if isinstance(node.value, ast.Name) and node.value.id in self.t and node.attr == "size" and isinstance(node.ctx, ast.Load):
            import copy
            return ast.copy_location(ast.Call(func=self._struct("calcsize", node), args=[copy.deepcopy(self.t[node.value.id])], keywords=[]), node)
        return node


class SuppressToTry(ast.NodeTransformer):
    """`with suppress(E1, E2): BODY`  ->  `try: BODY except (E1, E2): pass`   (contextlib.suppress is exactly that)."""

    def visit_With(self, node):
        self.generic_visit(node)
        if len(node.items) == 1 and node.items[0].optional_vars is None and isinstance(node.items[0].context_expr, ast.Call):
            c = node.items[0].context_expr
            name = c.func.id if isinstance(c.func, ast.Name) else (c.func.attr if isinstance(c.func, ast.Attribute) else None)
            if name == "suppress" and c.args and not c.keywords and not any(isinstance(a, ast.Starred) for a in c.args):
                typ = c.args[0] if len(c.args) == 1 else ast.Tuple(elts=list(c.args), ctx=ast.Load())
                h = ast.ExceptHandler(type=typ, name=None, body=[ast.copy_location(ast.Pass(), node)])
                return ast.copy_location(ast.Try(body=node.body, handlers=[ast.copy_location(h, node)], orelse=[], finalbody=[]), node)
        return node


def canonicalise(tree: ast.AST) -> ast.AST:
    tree = SuppressToTry().visit(tree)
    table = {}
    for s_ in getattr(tree, "body", []):
        if isinstance(s_, ast.Assign) and len(s_.targets) == 1 and isinstance(s_.targets[0], ast.Name) and isinstance(s_.value, ast.Call) \
                and isinstance(s_.value.func, ast.Attribute) and s_.value.func.attr == "Struct" and isinstance(s_.value.func.value, ast.Name) \
                and s_.value.func.value.id == "struct" and len(s_.value.args) == 1:
            table[s_.targets[0].id] = s_.value.args[0]
    if table:
        tree = StructConst(table).visit(tree)
    new = Canon().visit(tree)
    ast.fix_missing_locations(new)
    return new
