"""Statement-level control-flow graph with exception edges.

One node per simple statement; compound statements contribute test / iterator
/ with-enter / with-exit / dispatch / handler / handled nodes.  Boolean
short-circuit operators and ``not`` in ``if``/``while`` tests are split into one
test node per atomic operand.  ``finally`` bodies are duplicated per
continuation (fall-through, return, break, continue, exception), so a
``return`` inside ``try`` really passes through ``finally``.  ``with`` is
modelled as enter; body; exit-ok on every normal continuation, exit-exc on the
exceptional one.

Edge labels: next true false return break continue  (normal)
             exc (implicit raise)  raise (explicit raise / re-raise)
             catch (dispatch -> handler)  unwind (dispatch -> outer, not caught)

The graph is built backwards (each construct is given its continuation).
"""
from __future__ import annotations

import ast
import itertools
from dataclasses import dataclass

EXC_LABELS = frozenset({"exc", "raise", "catch", "unwind"})
NORMAL_LABELS = frozenset({"next", "true", "false", "return", "break", "continue"})


@dataclass
class Node:
    id: int
    kind: str
    ast: ast.AST | None = None
    info: object = None      # with-item index / owning statement for test nodes / handler
    owner: ast.AST | None = None  # the statement this node belongs to (for tests: the if/while)

    @property
    def line(self) -> int:
        return getattr(self.ast, "lineno", 0) or getattr(self.owner, "lineno", 0)

    def __repr__(self):
        return f"<{self.id}:{self.kind}@{self.line}>"


@dataclass
class _Ctx:
    ret: int
    brk: int | None
    cont: int | None
    exc: int


# Calls that never raise for the purposes of resource-pairing rules.
NO_RAISE_CALLS = {
    "isinstance", "bool", "id", "type", "callable", "hasattr",
    "time.time", "os.path.join", "os.path.dirname", "os.path.basename", "os.fspath",
    "os.fsencode", "os.fsdecode", "os.path.isabs", "os.path.normpath", "os.path.abspath",
    "cast", "TypeVar",
}

SWALLOWING_MANAGERS = {"suppress", "contextlib.suppress"}


def _dotted(e):
    parts = []
    while isinstance(e, ast.Attribute):
        parts.append(e.attr)
        e = e.value
    if isinstance(e, ast.Name):
        parts.append(e.id)
        return ".".join(reversed(parts))
    return None


class RaiseModel:
    """Decides which expressions may raise.  Deliberately conservative (may-raise) but with the
    refinements that the repository's idioms need (DESIGN 1.1)."""

    def __init__(self, raising_properties: set[str] | None = None, trivial_ctors: set[str] | None = None,
                 no_raise_calls: set[str] | None = None):
        self.raising_properties = raising_properties or set()
        self.trivial_ctors = trivial_ctors or set()
        self.no_raise_calls = NO_RAISE_CALLS | (no_raise_calls or set())

    def expr(self, node: ast.AST | None) -> bool:
        if node is None:
            return False
        todo = [node]
        while todo:
            n = todo.pop()
            if isinstance(n, (ast.Lambda, ast.FunctionDef, ast.AsyncFunctionDef, ast.ClassDef)):
                continue
            if isinstance(n, ast.Attribute):
                if isinstance(n.ctx, ast.Load) and n.attr in self.raising_properties:
                    return True
            elif isinstance(n, ast.Call):
                d = _dotted(n.func)
                if d is None or not (d in self.no_raise_calls or d.split(".")[-1] in self.trivial_ctors
                                     and "." not in d):
                    return True
            elif isinstance(n, ast.Compare):
                if any(isinstance(o, (ast.In, ast.NotIn)) for o in n.ops):
                    return True
            elif isinstance(n, (ast.Subscript, ast.BinOp, ast.Await, ast.Yield, ast.YieldFrom, ast.Starred)):
                if isinstance(n, ast.Subscript) and isinstance(n.ctx, ast.Store) is False and _is_annotation_like(n):
                    pass
                else:
                    return True
            elif isinstance(n, ast.UnaryOp) and not isinstance(n.op, ast.Not):
                if not isinstance(n.operand, ast.Constant):
                    return True
            elif isinstance(n, (ast.JoinedStr, ast.FormattedValue)):
                pass
            elif isinstance(n, (ast.ListComp, ast.SetComp, ast.DictComp, ast.GeneratorExp)):
                return True
            todo.extend(ast.iter_child_nodes(n))
        return False

    def stmt(self, s: ast.stmt) -> bool:
        if isinstance(s, (ast.FunctionDef, ast.AsyncFunctionDef, ast.ClassDef, ast.Pass, ast.Global, ast.Nonlocal,
                          ast.Break, ast.Continue)):
            return False
        if isinstance(s, (ast.Import, ast.ImportFrom, ast.Assert, ast.Delete)):
            return True
        if isinstance(s, ast.AnnAssign):
            return self.expr(s.value) or self._target(s.target)
        if isinstance(s, ast.Assign):
            return self.expr(s.value) or any(self._target(t) for t in s.targets)
        if isinstance(s, ast.AugAssign):
            return True
        return self.expr(s)

    def _target(self, t: ast.AST) -> bool:
        if isinstance(t, ast.Name):
            return False
        if isinstance(t, ast.Attribute):
            return self.expr(t.value)
        if isinstance(t, (ast.Tuple, ast.List)):
            # unpacking a call result of unknown arity may raise, but the value already did
            return any(self._target(e) for e in t.elts)
        return True


def _is_annotation_like(n):
    return False


class CFG:
    def __init__(self, fn: ast.AST, raise_model: RaiseModel | None = None,
                 catch_all: frozenset = frozenset({None, "BaseException"}),
                 swallowing: set[str] | None = None):
        self.fn = fn
        self.rm = raise_model or RaiseModel()
        self.catch_all = catch_all
        self.swallowing = SWALLOWING_MANAGERS | (swallowing or set())
        self.nodes: dict[int, Node] = {}
        self.succ: dict[int, list[tuple[int, str]]] = {}
        self._ids = itertools.count()
        self._fin_cache: dict = {}
        self.entry = self._new("entry", None).id
        self.exit_normal = self._new("exit_normal", None).id
        self.exit_raise = self._new("exit_raise", None).id
        ctx = _Ctx(ret=self.exit_normal, brk=None, cont=None, exc=self.exit_raise)
        body = fn.body if isinstance(fn.body, list) else [ast.Return(value=fn.body, lineno=fn.lineno, col_offset=0)]
        first = self._stmts(body, self.exit_normal, ctx)
        self._edge(self.entry, first, "next")
        self._pred: dict[int, list[tuple[int, str]]] | None = None
        self._by_ast: dict[int, list[int]] | None = None

    # ---- construction helpers
    def _new(self, kind, node, info=None, owner=None) -> Node:
        n = Node(next(self._ids), kind, node, info, owner if owner is not None else node)
        self.nodes[n.id] = n
        self.succ[n.id] = []
        return n

    def _edge(self, a: int, b: int | None, label: str):
        if b is None:
            return
        if (b, label) not in self.succ[a]:
            self.succ[a].append((b, label))

    def _stmts(self, stmts, nxt: int, ctx: _Ctx) -> int:
        for s in reversed(stmts):
            nxt = self._stmt(s, nxt, ctx)
        return nxt

    def _cond(self, e: ast.AST, t: int, f: int, ctx: _Ctx, owner: ast.AST) -> int:
        if isinstance(e, ast.BoolOp) and isinstance(e.op, ast.And):
            nxt = t
            for v in reversed(e.values):
                nxt = self._cond(v, nxt, f, ctx, owner)
            return nxt
        if isinstance(e, ast.BoolOp) and isinstance(e.op, ast.Or):
            nxt = f
            for v in reversed(e.values):
                nxt = self._cond(v, t, nxt, ctx, owner)
            return nxt
        if isinstance(e, ast.UnaryOp) and isinstance(e.op, ast.Not):
            return self._cond(e.operand, f, t, ctx, owner)
        n = self._new("test", e, owner=owner)
        const = None
        if isinstance(e, ast.Constant):
            const = bool(e.value)
        if const is not False:
            self._edge(n.id, t, "true")
        if const is not True:
            self._edge(n.id, f, "false")
        if self.rm.expr(e):
            self._edge(n.id, ctx.exc, "exc")
        return n.id

    def _stmt(self, s: ast.stmt, nxt: int, ctx: _Ctx) -> int:
        if isinstance(s, (ast.FunctionDef, ast.AsyncFunctionDef, ast.ClassDef)):
            n = self._new("stmt", s)
            self._edge(n.id, nxt, "next")
            return n.id
        if isinstance(s, ast.Return):
            n = self._new("stmt", s)
            self._edge(n.id, ctx.ret, "return")
            if s.value is not None and self.rm.expr(s.value):
                self._edge(n.id, ctx.exc, "exc")
            return n.id
        if isinstance(s, ast.Raise):
            n = self._new("stmt", s)
            self._edge(n.id, ctx.exc, "raise")
            return n.id
        if isinstance(s, ast.Break):
            n = self._new("stmt", s)
            self._edge(n.id, ctx.brk, "break")
            return n.id
        if isinstance(s, ast.Continue):
            n = self._new("stmt", s)
            self._edge(n.id, ctx.cont, "continue")
            return n.id
        if isinstance(s, ast.If):
            t = self._stmts(s.body, nxt, ctx)
            f = self._stmts(s.orelse, nxt, ctx) if s.orelse else nxt
            return self._cond(s.test, t, f, ctx, s)
        if isinstance(s, ast.While):
            after = self._stmts(s.orelse, nxt, ctx) if s.orelse else nxt
            # the loop head is a join node so that `continue` has a target before the test is built
            head = self._new("join", None, owner=s)
            inner = _Ctx(ret=ctx.ret, brk=nxt, cont=head.id, exc=ctx.exc)
            body = self._stmts(s.body, head.id, inner)
            test = self._cond(s.test, body, after, ctx, s)
            self._edge(head.id, test, "next")
            return head.id
        if isinstance(s, (ast.For, ast.AsyncFor)):
            h = self._new("for_iter", s)
            after = self._stmts(s.orelse, nxt, ctx) if s.orelse else nxt
            inner = _Ctx(ret=ctx.ret, brk=nxt, cont=h.id, exc=ctx.exc)
            self._edge(h.id, self._stmts(s.body, h.id, inner), "true")
            self._edge(h.id, after, "false")
            self._edge(h.id, ctx.exc, "exc")
            # evaluation of the iterable happens once, before the loop
            init = self._new("for_init", s)
            self._edge(init.id, h.id, "next")
            if self.rm.expr(s.iter):
                self._edge(init.id, ctx.exc, "exc")
            return init.id
        if isinstance(s, (ast.With, ast.AsyncWith)):
            return self._with(s, 0, nxt, ctx)
        if isinstance(s, ast.Try) or s.__class__.__name__ == "TryStar":
            return self._try(s, nxt, ctx)
        if isinstance(s, ast.Match):
            t = self._new("test", s.subject, owner=s)
            for case in s.cases:
                self._edge(t.id, self._stmts(case.body, nxt, ctx), "true")
            self._edge(t.id, nxt, "false")
            self._edge(t.id, ctx.exc, "exc")
            return t.id
        n = self._new("stmt", s)
        self._edge(n.id, nxt, "next")
        if self.rm.stmt(s):
            self._edge(n.id, ctx.exc, "exc")
        return n.id

    def _with(self, s, i, nxt, ctx) -> int:
        item = s.items[i]

        def exit_ok(target):
            if target is None:
                return None
            n = self._new("with_exit_ok", s, i)
            self._edge(n.id, target, "next")
            self._edge(n.id, ctx.exc, "exc")      # __exit__ itself may raise
            return n.id
        x_exc = self._new("with_exit_exc", s, i)
        self._edge(x_exc.id, ctx.exc, "raise")
        d = _dotted(item.context_expr.func) if isinstance(item.context_expr, ast.Call) else None
        if d in self.swallowing:
            self._edge(x_exc.id, nxt, "next")
        inner = _Ctx(ret=exit_ok(ctx.ret), brk=exit_ok(ctx.brk), cont=exit_ok(ctx.cont), exc=x_exc.id)
        after = exit_ok(nxt)
        if i + 1 < len(s.items):
            body_entry = self._with(s, i + 1, after, inner)
        else:
            body_entry = self._stmts(s.body, after, inner)
        e = self._new("with_enter", s, i)
        self._edge(e.id, body_entry, "next")
        self._edge(e.id, ctx.exc, "exc")          # evaluating the manager / __enter__ may raise: not entered
        return e.id

    def _is_catch_all(self, h: ast.ExceptHandler) -> bool:
        if h.type is None:
            return None in self.catch_all
        names = []
        if isinstance(h.type, ast.Tuple):
            names = [_dotted(e) for e in h.type.elts]
        else:
            names = [_dotted(h.type)]
        return any(n is not None and n.split(".")[-1] in self.catch_all for n in names)

    def _try(self, s, nxt, ctx) -> int:
        fin = s.finalbody

        def through_finally(target, label):
            if not fin or target is None:
                return target
            key = (id(s), target, label)
            if key not in self._fin_cache:
                self._fin_cache[key] = self._stmts(fin, target, ctx)
            return self._fin_cache[key]
        outer = _Ctx(ret=through_finally(ctx.ret, "ret"), brk=through_finally(ctx.brk, "brk"),
                     cont=through_finally(ctx.cont, "cont"), exc=through_finally(ctx.exc, "exc"))
        after = through_finally(nxt, "next")
        if s.handlers:
            d = self._new("dispatch", s)
            catch_all = False
            for h in s.handlers:
                hn = self._new("handler", h)
                handled = self._new("handled", h)
                self._edge(handled.id, after, "next")
                self._edge(hn.id, self._stmts(h.body, handled.id, outer), "next")
                self._edge(d.id, hn.id, "catch")
                if self._is_catch_all(h):
                    catch_all = True
            if not catch_all:
                self._edge(d.id, outer.exc, "unwind")
            body_exc = d.id
        else:
            body_exc = outer.exc
        else_entry = self._stmts(s.orelse, after, outer) if s.orelse else after
        bctx = _Ctx(ret=outer.ret, brk=outer.brk, cont=outer.cont, exc=body_exc)
        return self._stmts(s.body, else_entry, bctx)

    # ---- queries
    @property
    def pred(self) -> dict[int, list[tuple[int, str]]]:
        if self._pred is None:
            p = {i: [] for i in self.nodes}
            for a, outs in self.succ.items():
                for b, l in outs:
                    p[b].append((a, l))
            self._pred = p
        return self._pred

    def nodes_of(self, a: ast.AST, kinds=None) -> list[int]:
        """All CFG nodes whose ast is ``a`` (several for statements duplicated in ``finally``)."""
        if self._by_ast is None:
            m: dict[int, list[int]] = {}
            for i, n in self.nodes.items():
                if n.ast is not None:
                    m.setdefault(id(n.ast), []).append(i)
            self._by_ast = m
        out = self._by_ast.get(id(a), [])
        if kinds:
            out = [i for i in out if self.nodes[i].kind in kinds]
        return out

    def nodes_containing(self, sub: ast.AST) -> list[int]:
        """CFG nodes whose own expression/statement contains the AST node ``sub`` (not nested bodies)."""
        out = []
        for i, n in self.nodes.items():
            for e in node_exprs(n):
                if any(x is sub for x in _walk_shallow(e)):
                    out.append(i)
                    break
        return out

    def size(self):
        return len(self.nodes), sum(len(v) for v in self.succ.values())


def _walk_shallow(node):
    todo = [node]
    first = True
    while todo:
        n = todo.pop()
        if not first and isinstance(n, (ast.FunctionDef, ast.AsyncFunctionDef, ast.ClassDef, ast.Lambda)):
            continue
        first = False
        yield n
        todo.extend(ast.iter_child_nodes(n))


def node_exprs(n: Node) -> list[ast.AST]:
    """The AST fragments *evaluated at* a CFG node (not the bodies of compound statements)."""
    a = n.ast
    if a is None:
        return []
    if n.kind == "stmt":
        if isinstance(a, (ast.FunctionDef, ast.AsyncFunctionDef, ast.ClassDef)):
            return []
        return [a]
    if n.kind == "test":
        return [a]
    if n.kind == "for_init":
        return [a.iter]
    if n.kind == "for_iter":
        return [a.target]
    if n.kind == "with_enter":
        item = a.items[n.info]
        return [item.context_expr] + ([item.optional_vars] if item.optional_vars is not None else [])
    return []


def node_calls(n: Node):
    for e in node_exprs(n):
        for x in _walk_shallow(e):
            if isinstance(x, ast.Call):
                yield x


def raising_properties(modules) -> set[str]:
    """Names of ``@property`` attributes anywhere in the package whose getter does more than
    return a field or a constant (so that loading them may raise)."""
    out = set()
    for m in modules:
        for n in ast.walk(m.tree):
            if isinstance(n, ast.FunctionDef) and any(
                    (isinstance(d, ast.Name) and d.id in ("property", "cached_property"))
                    or (isinstance(d, ast.Attribute) and d.attr in ("getter", "cached_property"))
                    for d in n.decorator_list):
                body = [b for b in n.body if not (isinstance(b, ast.Expr) and isinstance(b.value, ast.Constant))]
                trivial = len(body) == 1 and isinstance(body[0], ast.Return) and (
                    body[0].value is None or isinstance(body[0].value, (ast.Constant, ast.Name))
                    or (isinstance(body[0].value, ast.Attribute) and isinstance(body[0].value.value, ast.Name)))
                if not trivial:
                    out.add(n.name)
    return out
