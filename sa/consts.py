"""Constant folder for module-level tables and simple expressions (no execution of repository code).

Understands: constants, tuples/lists/sets/dicts of foldable items, module-level names (through the module's
own bindings and ``from x import NAME`` inside the package), ord()/chr()/len()/bytes()/frozenset()/set()/
tuple()/list()/min()/max()/int()/hex-free arithmetic (+ - * // % ** << >> | & ^ ~), comparison-free.
Raises Unfoldable for anything else.
"""
from __future__ import annotations

import ast
import operator
import stat as _stat
import struct as _struct

from .load import Program, Module, dotted


class Unfoldable(Exception):
    pass


_BIN = {ast.Add: operator.add, ast.Sub: operator.sub, ast.Mult: operator.mul, ast.FloorDiv: operator.floordiv,
        ast.Mod: operator.mod, ast.Pow: operator.pow, ast.LShift: operator.lshift, ast.RShift: operator.rshift,
        ast.BitOr: operator.or_, ast.BitAnd: operator.and_, ast.BitXor: operator.xor}
_UN = {ast.Invert: operator.invert, ast.USub: operator.neg, ast.UAdd: operator.pos, ast.Not: operator.not_}

_KNOWN_ATTRS = {
    "stat.S_IFDIR": _stat.S_IFDIR, "stat.S_IFMT": _stat.S_IFMT(0o177777), "stat.S_IFREG": _stat.S_IFREG,
    "stat.S_IFLNK": _stat.S_IFLNK, "os.sep": "/", "os.O_CREAT": 0o100, "os.O_EXCL": 0o200,
}
_SAFE_CALLS = {"ord": ord, "chr": chr, "len": len, "bytes": bytes, "frozenset": frozenset, "set": set, "tuple": tuple,
               "list": list, "min": min, "max": max, "int": int, "sorted": sorted, "dict": dict, "range": range,
               "bytearray": bytearray}


class Folder:
    def __init__(self, prog: Program, mod: Module, local: dict | None = None):
        self.prog = prog
        self.mod = mod
        self.local = local or {}
        self._busy: set = set()

    def fold(self, e: ast.AST):
        if isinstance(e, ast.Constant):
            return e.value
        if isinstance(e, (ast.Tuple, ast.List)):
            vals = [self.fold(x) for x in e.elts]
            return tuple(vals) if isinstance(e, ast.Tuple) else vals
        if isinstance(e, ast.Set):
            return {self.fold(x) for x in e.elts}
        if isinstance(e, ast.Dict):
            return {self.fold(k): self.fold(v) for k, v in zip(e.keys, e.values)}
        if isinstance(e, ast.Name):
            if e.id in self.local:
                v = self.local[e.id]
                return self.fold(v) if isinstance(v, ast.AST) else v
            return self.name(self.mod, e.id)
        if isinstance(e, ast.Attribute):
            d = dotted(e)
            if d in _KNOWN_ATTRS:
                return _KNOWN_ATTRS[d]
            raise Unfoldable(f"attribute {d}")
        if isinstance(e, ast.BinOp) and type(e.op) in _BIN:
            return _BIN[type(e.op)](self.fold(e.left), self.fold(e.right))
        if isinstance(e, ast.UnaryOp) and type(e.op) in _UN:
            return _UN[type(e.op)](self.fold(e.operand))
        if isinstance(e, ast.Call):
            d = dotted(e.func)
            if d in _SAFE_CALLS and not e.keywords:
                return _SAFE_CALLS[d](*[self.fold(a) for a in e.args])
            if d == "struct.calcsize" and e.args:
                return _struct.calcsize(self.fold(e.args[0]))
            if d in ("Ref", "ObjectID", "RawObjectID") and len(e.args) == 1:
                return self.fold(e.args[0])
            raise Unfoldable(f"call {d}")
        if isinstance(e, ast.Subscript):
            base = self.fold(e.value)
            if isinstance(e.slice, ast.Slice):
                lo = self.fold(e.slice.lower) if e.slice.lower else None
                hi = self.fold(e.slice.upper) if e.slice.upper else None
                return base[lo:hi]
            return base[self.fold(e.slice)]
        if isinstance(e, ast.JoinedStr):
            raise Unfoldable("f-string")
        raise Unfoldable(type(e).__name__)

    def name(self, mod: Module, name: str):
        key = (mod.rel, name)
        if key in self._busy:
            raise Unfoldable(f"cyclic {name}")
        self._busy.add(key)
        try:
            if name in mod.consts:
                return Folder(self.prog, mod).fold(mod.consts[name])
            origin = mod.imports.get(name)
            if origin:
                # resolve `from .x import NAME` / `from dulwich.x import NAME` inside the package
                parts = origin.lstrip(".").split(".")
                target = parts[-1]
                modname = parts[-2] if len(parts) >= 2 else None
                for rel, m in self.prog.modules.items():
                    base = rel[:-3].replace("/", ".")
                    if modname and (base.endswith("." + modname) or base == modname) and target in m.consts:
                        return Folder(self.prog, m).name(m, target)
            raise Unfoldable(f"name {name}")
        finally:
            self._busy.discard(key)

    def try_fold(self, e, default=None):
        try:
            return self.fold(e)
        except (Unfoldable, Exception):
            return default
