"""Helpers shared by several rule modules: raise model for the package, wrapper summaries,
GitFile site enumeration."""
from __future__ import annotations

import ast
from functools import lru_cache

from .cfg import CFG, RaiseModel, raising_properties
from .load import Program, Func, callee_name, dotted, arg_of, walk_no_nested

_HASH_CTORS = {"sha1", "sha256", "hashlib.sha1", "hashlib.sha256", "set", "dict", "list", "tuple", "bytearray",
               "BytesIO", "deque", "object", "frozenset"}


def trivial_ctors(prog: Program) -> set[str]:
    """Classes whose ``__init__`` only stores its arguments / constants / results of calls that do not raise
    (inlining bound 2).  Constructing such a class cannot raise for the purposes of pairing rules."""
    cached = getattr(prog, "_trivial_ctors", None)
    if cached is not None:
        return cached
    out: set[str] = set()
    for _ in range(2):
        rm = RaiseModel(set(), out, _HASH_CTORS)
        for cname, lst in prog.classes.items():
            if cname in out or len(lst) != 1:
                continue
            init = prog.method(cname, "__init__")
            if init is None:
                continue
            ok = True
            for s in init.node.body:
                if isinstance(s, ast.Expr) and isinstance(s.value, ast.Constant):
                    continue
                if isinstance(s, (ast.Assign, ast.AnnAssign)):
                    if rm.stmt(s):
                        ok = False
                        break
                    continue
                ok = False
                break
            if ok:
                out.add(cname)
    prog._trivial_ctors = out
    return out


def raise_model(prog: Program, exempt_props: set[str] = frozenset()) -> RaiseModel:
    key = ("_rm", tuple(sorted(exempt_props)))
    c = getattr(prog, "_rm_cache", None)
    if c is None:
        c = prog._rm_cache = {}
    if key not in c:
        rp = raising_properties(prog.modules.values()) - set(exempt_props)
        c[key] = RaiseModel(rp, trivial_ctors(prog), _HASH_CTORS)
    return c[key]


def cfg_of(prog: Program, f: Func, exempt_props: set[str] = frozenset({"closed"}), **kw) -> CFG:
    c = getattr(prog, "_cfg_cache", None)
    if c is None:
        c = prog._cfg_cache = {}
    key = (id(f.node), tuple(sorted(exempt_props)), tuple(sorted(kw.items())))
    if key not in c:
        c[key] = CFG(f.node, raise_model(prog, exempt_props), **kw)
        prog._cfg_stats = getattr(prog, "_cfg_stats", [0, 0, 0])
        n, e = c[key].size()
        prog._cfg_stats[0] += 1
        prog._cfg_stats[1] += n
        prog._cfg_stats[2] += e
    return c[key]


def closing_wrappers(prog: Program) -> dict[str, int]:
    """Classes whose ``close`` closes the object passed as constructor argument i (summary, not a list):
    ``__init__`` stores parameter i in ``self.A`` and every normal path of ``close`` calls ``self.A.close()``."""
    cached = getattr(prog, "_closing_wrappers", None)
    if cached is not None:
        return cached
    from .flow import must_pass
    out: dict[str, int] = {}
    for cname, lst in prog.classes.items():
        if len(lst) != 1:
            continue
        cls = lst[0]
        init = cls.module.funcs.get(f"{cname}.__init__")
        close = cls.module.funcs.get(f"{cname}.close")
        if init is None or close is None:
            continue
        ps = [a.arg for a in init.node.args.args][1:]
        stored: dict[str, int] = {}
        for s in init.node.body:
            if isinstance(s, (ast.Assign, ast.AnnAssign)):
                tgt = s.targets[0] if isinstance(s, ast.Assign) else s.target
                v = s.value
                if (isinstance(tgt, ast.Attribute) and isinstance(tgt.value, ast.Name) and tgt.value.id == "self"
                        and isinstance(v, ast.Name) and v.id in ps):
                    stored[tgt.attr] = ps.index(v.id)
        if not stored:
            continue
        g = CFG(close.node)
        for attr, idx in stored.items():
            closers = []
            for i, n in g.nodes.items():
                if n.kind == "stmt":
                    for c in ast.walk(n.ast):
                        if (isinstance(c, ast.Call) and isinstance(c.func, ast.Attribute) and c.func.attr == "close"
                                and dotted(c.func.value) == f"self.{attr}"):
                            closers.append(i)
            if closers and not must_pass(g, [g.exit_normal], closers):
                out[cname] = idx
    prog._closing_wrappers = out
    return out


def const_str(e: ast.AST | None) -> str | None:
    if isinstance(e, ast.Constant) and isinstance(e.value, str):
        return e.value
    return None


def gitfile_mode(call: ast.Call) -> str | None:
    """Constant-folded mode of a ``GitFile(...)`` call: 'rb' default, None if not a constant."""
    m = arg_of(call, 1, "mode")
    if m is None:
        return "rb"
    if isinstance(m, ast.Constant) and isinstance(m.value, str):
        return m.value
    if isinstance(m, ast.BinOp) and isinstance(m.op, ast.Add):
        l, r = const_str(m.left), const_str(m.right)
        if l is not None and "w" in l:
            return l + (r or "")
    return None


def is_gitfile_call(prog: Program, mod, call: ast.AST) -> bool:
    if not isinstance(call, ast.Call):
        return False
    d = dotted(call.func)
    if d is None:
        return False
    last = d.split(".")[-1]
    if last not in ("GitFile", "_GitFile"):
        # an alias imported under another name
        origin = mod.imports.get(d, "")
        if not origin.endswith("file.GitFile"):
            return False
    return True


def alias_guard(prog: Program, rep, rule: str, names: set[str], scope_rel: set[str] | None = None):
    """Soundness guard of name-based call-site enumeration: a tracked callee must never be loaded as a *value*
    (``f = refs.set_if_equals``; ``cb(validate_path)``), because calls through such an alias are invisible to the
    enumeration.  Loads inside ``__all__``, imports, decorators and ``getattr`` strings are not loads of the value.
    Emits one obligation for the rule; a site is reported with its position."""
    bad = []
    for m in prog.modules.values():
        if scope_rel is not None and m.rel not in scope_rel:
            continue
        for n in ast.walk(m.tree):
            nm = None
            if isinstance(n, ast.Attribute) and isinstance(n.ctx, ast.Load) and n.attr in names:
                nm = n.attr
            elif isinstance(n, ast.Name) and isinstance(n.ctx, ast.Load) and n.id in names:
                nm = n.id
            if nm is None:
                continue
            par = m.parents.get(n)
            if isinstance(par, ast.Call) and par.func is n:
                continue
            if _in_annotation(m, n):
                continue
            # `raise NotImplementedError(self.set_if_equals)` in abstract bases names the method for the message
            if isinstance(par, ast.Call) and callee_name(par) in ("NotImplementedError",):
                continue
            # `_parse_tree_py = parse_tree` style "hold on to the python implementation" bindings are part of the
            # substitution table handled by C15, not aliases of a tracked method
            bad.append((m.rel, n.lineno, nm))
    rep.ob(rule, "package", "alias guard", f"no tracked callee ({', '.join(sorted(names))}) is used as a value", not bad,
           f"a tracked function or method is loaded without being called at {bad[:4]}: calls through the alias are "
           f"invisible to the name-based enumeration of this rule", bad[0][1] if bad else 0)
    return bad


def _in_annotation(m, n) -> bool:
    cur = n
    while cur in m.parents:
        par = m.parents[cur]
        if isinstance(par, ast.arg):
            return True
        if isinstance(par, (ast.FunctionDef, ast.AsyncFunctionDef)) and par.returns is cur:
            return True
        if isinstance(par, ast.AnnAssign) and par.annotation is cur:
            return True
        if isinstance(par, ast.Call) and callee_name(par) in ("cast", "isinstance", "TypeVar") :
            return True
        if isinstance(par, ast.stmt):
            return False
        cur = par
    return False


# ---------------------------------------------------------------- oriented comparisons
_FLIP = {"<": ">", "<=": ">=", ">": "<", ">=": "<=", "==": "==", "!=": "!="}
_OPS = {ast.Lt: "<", ast.LtE: "<=", ast.Gt: ">", ast.GtE: ">=", ast.Eq: "==", ast.NotEq: "!="}
_EVAL = {"<": lambda a, b: a < b, "<=": lambda a, b: a <= b, ">": lambda a, b: a > b, ">=": lambda a, b: a >= b,
         "==": lambda a, b: a == b, "!=": lambda a, b: a != b}


def var_cmp(e, folder):
    """A single comparison between a non-constant expression and an integer constant, oriented with the expression on
    the left whatever way round the source (or its canonical form) has it: (expression node, op text, constant) or None."""
    if not (isinstance(e, ast.Compare) and len(e.ops) == 1 and type(e.ops[0]) in _OPS):
        return None
    op = _OPS[type(e.ops[0])]
    l, r = e.left, e.comparators[0]
    cl, cr = folder.try_fold(l), folder.try_fold(r)
    if isinstance(cr, int) and not isinstance(cr, bool) and not isinstance(cl, int):
        return l, op, cr
    if isinstance(cl, int) and not isinstance(cl, bool) and not isinstance(cr, int):
        return r, _FLIP[op], cl
    return None


def same_int_test(op1, c1, op2, c2) -> bool:
    """`x op1 c1` and `x op2 c2` are true for the same integers (decided on the breakpoints)."""
    pts = {c + d for c in (c1, c2) for d in (-2, -1, 0, 1, 2)}
    return all(_EVAL[op1](x, c1) == _EVAL[op2](x, c2) for x in pts)


def is_int_test(e, folder, var_text: str, op: str, c: int) -> bool:
    """e is a comparison of the expression spelled `var_text` with a constant that is equivalent to `var_text op c`."""
    from sa.load import norm as _norm
    v = var_cmp(e, folder)
    return v is not None and _norm(v[0]).replace(" ", "") == var_text.replace(" ", "") and same_int_test(v[1], v[2], op, c)


def share(rep, producer, new_rule: str, keep, description: str | None = None):
    """Run another property's rule function and keep the obligations selected by `keep` under this property's rule id:
    some clauses are necessary conditions of more than one property (the lock protocol for atomic ref updates, flush and
    fsync before rename for crash consistency, ...).  Returns the number of obligations kept (0 is an analysis error)."""
    from sa.load import AnalysisError
    before = len(rep.obs)
    rules_before = dict(getattr(rep, "rules", {}))
    saved = {k: (list(getattr(rep, k)) if isinstance(getattr(rep, k), list) else dict(getattr(rep, k)))
             for k in ("notes", "counts", "not_decided", "assumptions", "floors") if hasattr(rep, k)}
    producer()
    new = rep.obs[before:]
    del rep.obs[before:]
    for k, v in saved.items():
        setattr(rep, k, v)
    # rule descriptions registered by the producer belong to the other property
    if hasattr(rep, "rules"):
        for k in list(rep.rules):
            if k not in rules_before:
                del rep.rules[k]
    kept = [o for o in new if keep(o)]
    for o in kept:
        o.rule = new_rule
        rep.obs.append(o)
    if description:
        rep.rule(new_rule, description)
    if not kept:
        raise AnalysisError(f"{new_rule}: the shared rule produced no obligation")
    return len(kept)


# ---------------------------------------------------------------- forward substitution of straight-line updates
def compose_update(stmts, var: str):
    """The value `var` has after the straight-line statements `stmts`, as ONE expression over the values before them:
    `x += 1; x <<= 7; x += b & 127`  and  `x = ((x + 1) << 7) + (b & 127)`  both give  `((x + 1) << 7) + (b & 127)`.
    Only plain and augmented assignments to names are composed; returns None when something else writes `var`."""
    import copy
    env: dict[str, ast.AST] = {}

    class Sub(ast.NodeTransformer):
        def visit_Name(self, node):
            if isinstance(node.ctx, ast.Load) and node.id in env:
                return copy.deepcopy(env[node.id])
            return node
    for s in stmts:
        if isinstance(s, ast.AugAssign) and isinstance(s.target, ast.Name):
            old = env.get(s.target.id, ast.Name(id=s.target.id, ctx=ast.Load()))
            env[s.target.id] = ast.BinOp(left=copy.deepcopy(old), op=s.op, right=Sub().visit(copy.deepcopy(s.value)))
        elif isinstance(s, ast.Assign) and len(s.targets) == 1 and isinstance(s.targets[0], ast.Name):
            env[s.targets[0].id] = Sub().visit(copy.deepcopy(s.value))
        elif isinstance(s, (ast.Expr, ast.Assert, ast.Pass)):
            continue
        else:
            if any(isinstance(x, ast.Name) and x.id == var and isinstance(x.ctx, ast.Store) for x in ast.walk(s)):
                return None
    return env.get(var)


def expr_key(e: ast.AST, folder=None) -> str:
    """A canonical text of an arithmetic expression: constants folded, operands of + | & ^ * ordered."""
    if e is None:
        return "?"
    if folder is not None:
        v = folder.try_fold(e)
        if isinstance(v, (int, bytes)) and not isinstance(v, bool):
            return repr(v)
    if isinstance(e, ast.Constant):
        return repr(e.value)
    if isinstance(e, ast.BinOp):
        l, r = expr_key(e.left, folder), expr_key(e.right, folder)
        op = type(e.op).__name__
        if isinstance(e.op, (ast.Add, ast.BitOr, ast.BitAnd, ast.BitXor, ast.Mult)):
            # flatten same-operator chains and sort
            def flat(x):
                if isinstance(x, ast.BinOp) and type(x.op) is type(e.op):
                    return flat(x.left) + flat(x.right)
                return [expr_key(x, folder)]
            return f"{op}(" + ",".join(sorted(flat(e))) + ")"
        return f"{op}({l},{r})"
    if isinstance(e, ast.UnaryOp):
        return f"{type(e.op).__name__}({expr_key(e.operand, folder)})"
    from sa.load import norm as _norm
    return _norm(e)
