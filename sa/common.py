"""Helpers shared by several rule modules: raise model for the package, wrapper summaries,
GitFile site enumeration."""
from __future__ import annotations

import ast
from functools import lru_cache

from .cfg import CFG, RaiseModel, raising_properties
from .load import Program, Func, callee_name, dotted, arg_of, walk_no_nested

_HASH_CTORS = {"sha1", "sha256", "hashlib.sha1", "hashlib.sha256", "set", "dict", "list", "tuple", "bytearray",
               "BytesIO", "deque", "object", "frozenset"}


def trivial_ctors(prog: Program) -> set[str]:
    """Classes whose ``__init__`` only stores its arguments / constants / results of calls that do not raise
    (inlining bound 2).  Constructing such a class cannot raise for the purposes of pairing rules."""
    cached = getattr(prog, "_trivial_ctors", None)
    if cached is not None:
        return cached
    out: set[str] = set()
    for _ in range(2):
        rm = RaiseModel(set(), out, _HASH_CTORS)
        for cname, lst in prog.classes.items():
            if cname in out or len(lst) != 1:
                continue
            init = prog.method(cname, "__init__")
            if init is None:
                continue
            ok = True
            for s in init.node.body:
                if isinstance(s, ast.Expr) and isinstance(s.value, ast.Constant):
                    continue
                if isinstance(s, (ast.Assign, ast.AnnAssign)):
                    if rm.stmt(s):
                        ok = False
                        break
                    continue
                ok = False
                break
            if ok:
                out.add(cname)
    prog._trivial_ctors = out
    return out


def raise_model(prog: Program, exempt_props: set[str] = frozenset()) -> RaiseModel:
    key = ("_rm", tuple(sorted(exempt_props)))
    c = getattr(prog, "_rm_cache", None)
    if c is None:
        c = prog._rm_cache = {}
    if key not in c:
        rp = raising_properties(prog.modules.values()) - set(exempt_props)
        c[key] = RaiseModel(rp, trivial_ctors(prog), _HASH_CTORS)
    return c[key]


def cfg_of(prog: Program, f: Func, exempt_props: set[str] = frozenset({"closed"}), **kw) -> CFG:
    c = getattr(prog, "_cfg_cache", None)
    if c is None:
        c = prog._cfg_cache = {}
    key = (id(f.node), tuple(sorted(exempt_props)), tuple(sorted(kw.items())))
    if key not in c:
        c[key] = CFG(f.node, raise_model(prog, exempt_props), **kw)
        prog._cfg_stats = getattr(prog, "_cfg_stats", [0, 0, 0])
        n, e = c[key].size()
        prog._cfg_stats[0] += 1
        prog._cfg_stats[1] += n
        prog._cfg_stats[2] += e
    return c[key]


def closing_wrappers(prog: Program) -> dict[str, int]:
    """Classes whose ``close`` closes the object passed as constructor argument i (summary, not a list):
    ``__init__`` stores parameter i in ``self.A`` and every normal path of ``close`` calls ``self.A.close()``."""
    cached = getattr(prog, "_closing_wrappers", None)
    if cached is not None:
        return cached
    from .flow import must_pass
    out: dict[str, int] = {}
    for cname, lst in prog.classes.items():
        if len(lst) != 1:
            continue
        cls = lst[0]
        init = cls.module.funcs.get(f"{cname}.__init__")
        close = cls.module.funcs.get(f"{cname}.close")
        if init is None or close is None:
            continue
        ps = [a.arg for a in init.node.args.args][1:]
        stored: dict[str, int] = {}
        for s in init.node.body:
            if isinstance(s, (ast.Assign, ast.AnnAssign)):
                tgt = s.targets[0] if isinstance(s, ast.Assign) else s.target
                v = s.value
                if (isinstance(tgt, ast.Attribute) and isinstance(tgt.value, ast.Name) and tgt.value.id == "self"
                        and isinstance(v, ast.Name) and v.id in ps):
                    stored[tgt.attr] = ps.index(v.id)
        if not stored:
            continue
        g = CFG(close.node)
        for attr, idx in stored.items():
            closers = []
            for i, n in g.nodes.items():
                if n.kind == "stmt":
                    for c in ast.walk(n.ast):
                        if (isinstance(c, ast.Call) and isinstance(c.func, ast.Attribute) and c.func.attr == "close"
                                and dotted(c.func.value) == f"self.{attr}"):
                            closers.append(i)
            if closers and not must_pass(g, [g.exit_normal], closers):
                out[cname] = idx
    prog._closing_wrappers = out
    return out


def const_str(e: ast.AST | None) -> str | None:
    if isinstance(e, ast.Constant) and isinstance(e.value, str):
        return e.value
    return None


def gitfile_mode(call: ast.Call) -> str | None:
    """Constant-folded mode of a ``GitFile(...)`` call: 'rb' default, None if not a constant."""
    m = arg_of(call, 1, "mode")
    if m is None:
        return "rb"
    if isinstance(m, ast.Constant) and isinstance(m.value, str):
        return m.value
    if isinstance(m, ast.BinOp) and isinstance(m.op, ast.Add):
        l, r = const_str(m.left), const_str(m.right)
        if l is not None and "w" in l:
            return l + (r or "")
    return None


def is_gitfile_call(prog: Program, mod, call: ast.AST) -> bool:
    if not isinstance(call, ast.Call):
        return False
    d = dotted(call.func)
    if d is None:
        return False
    last = d.split(".")[-1]
    if last not in ("GitFile", "_GitFile"):
        # an alias imported under another name
        origin = mod.imports.get(d, "")
        if not origin.endswith("file.GitFile"):
            return False
    return True


def alias_guard(prog: Program, rep, rule: str, names: set[str], scope_rel: set[str] | None = None):
    """Soundness guard of name-based call-site enumeration: a tracked callee must never be loaded as a *value*
    (``f = refs.set_if_equals``; ``cb(validate_path)``), because calls through such an alias are invisible to the
    enumeration.  Loads inside ``__all__``, imports, decorators and ``getattr`` strings are not loads of the value.
    Emits one obligation for the rule; a site is reported with its position."""
    bad = []
    for m in prog.modules.values():
        if scope_rel is not None and m.rel not in scope_rel:
            continue
        for n in ast.walk(m.tree):
            nm = None
            if isinstance(n, ast.Attribute) and isinstance(n.ctx, ast.Load) and n.attr in names:
                nm = n.attr
            elif isinstance(n, ast.Name) and isinstance(n.ctx, ast.Load) and n.id in names:
                nm = n.id
            if nm is None:
                continue
            par = m.parents.get(n)
            if isinstance(par, ast.Call) and par.func is n:
                continue
            if _in_annotation(m, n):
                continue
            # `raise NotImplementedError(self.set_if_equals)` in abstract bases names the method for the message
            if isinstance(par, ast.Call) and callee_name(par) in ("NotImplementedError",):
                continue
            # `_parse_tree_py = parse_tree` style "hold on to the python implementation" bindings are part of the
            # substitution table handled by C15, not aliases of a tracked method
            bad.append((m.rel, n.lineno, nm))
    rep.ob(rule, "package", "alias guard", f"no tracked callee ({', '.join(sorted(names))}) is used as a value", not bad,
           f"a tracked function or method is loaded without being called at {bad[:4]}: calls through the alias are "
           f"invisible to the name-based enumeration of this rule", bad[0][1] if bad else 0)
    return bad


def _in_annotation(m, n) -> bool:
    cur = n
    while cur in m.parents:
        par = m.parents[cur]
        if isinstance(par, ast.arg):
            return True
        if isinstance(par, (ast.FunctionDef, ast.AsyncFunctionDef)) and par.returns is cur:
            return True
        if isinstance(par, ast.AnnAssign) and par.annotation is cur:
            return True
        if isinstance(par, ast.Call) and callee_name(par) in ("cast", "isinstance", "TypeVar") :
            return True
        if isinstance(par, ast.stmt):
            return False
        cur = par
    return False


# ---------------------------------------------------------------- oriented comparisons
_FLIP = {"<": ">", "<=": ">=", ">": "<", ">=": "<=", "==": "==", "!=": "!="}
_OPS = {ast.Lt: "<", ast.LtE: "<=", ast.Gt: ">", ast.GtE: ">=", ast.Eq: "==", ast.NotEq: "!="}
_EVAL = {"<": lambda a, b: a < b, "<=": lambda a, b: a <= b, ">": lambda a, b: a > b, ">=": lambda a, b: a >= b,
         "==": lambda a, b: a == b, "!=": lambda a, b: a != b}


def var_cmp(e, folder):
    """A single comparison between a non-constant expression and an integer constant, oriented with the expression on
    the left whatever way round the source (or its canonical form) has it: (expression node, op text, constant) or None."""
    if not (isinstance(e, ast.Compare) and len(e.ops) == 1 and type(e.ops[0]) in _OPS):
        return None
    op = _OPS[type(e.ops[0])]
    l, r = e.left, e.comparators[0]
    cl, cr = folder.try_fold(l), folder.try_fold(r)
    if isinstance(cr, int) and not isinstance(cr, bool) and not isinstance(cl, int):
        return l, op, cr
    if isinstance(cl, int) and not isinstance(cl, bool) and not isinstance(cr, int):
        return r, _FLIP[op], cl
    return None


def same_int_test(op1, c1, op2, c2) -> bool:
    """`x op1 c1` and `x op2 c2` are true for the same integers (decided on the breakpoints)."""
    pts = {c + d for c in (c1, c2) for d in (-2, -1, 0, 1, 2)}
    return all(_EVAL[op1](x, c1) == _EVAL[op2](x, c2) for x in pts)


def is_int_test(e, folder, var_text: str, op: str, c: int) -> bool:
    """e is a comparison of the expression spelled `var_text` with a constant that is equivalent to `var_text op c`."""
    from sa.load import norm as _norm
    v = var_cmp(e, folder)
    return v is not None and _norm(v[0]).replace(" ", "") == var_text.replace(" ", "") and same_int_test(v[1], v[2], op, c)


def share(rep, producer, new_rule: str, keep, description: str | None = None):
    """Run another property's rule function and keep the obligations selected by `keep` under this property's rule id:
    some clauses are necessary conditions of more than one property (the lock protocol for atomic ref updates, flush and
    fsync before rename for crash consistency, ...).  Returns the number of obligations kept (0 is an analysis error)."""
    from sa.load import AnalysisError
    before = len(rep.obs)
    rules_before = dict(getattr(rep, "rules", {}))
    saved = {k: (list(getattr(rep, k)) if isinstance(getattr(rep, k), list) else dict(getattr(rep, k)))
             for k in ("notes", "counts", "not_decided", "assumptions", "floors") if hasattr(rep, k)}
    producer()
    new = rep.obs[before:]
    del rep.obs[before:]
    for k, v in saved.items():
        setattr(rep, k, v)
    # rule descriptions registered by the producer belong to the other property
    if hasattr(rep, "rules"):
        for k in list(rep.rules):
            if k not in rules_before:
                del rep.rules[k]
    kept = [o for o in new if keep(o)]
    for o in kept:
        o.rule = new_rule
        rep.obs.append(o)
    if description:
        rep.rule(new_rule, description)
    if not kept:
        raise AnalysisError(f"{new_rule}: the shared rule produced no obligation")
    return len(kept)


# ---------------------------------------------------------------- forward substitution of straight-line updates
def compose_update(stmts, var: str):
    """The value `var` has after the straight-line statements `stmts`, as ONE expression over the values before them:
    `x += 1; x <<= 7; x += b & 127`  and  `x = ((x + 1) << 7) + (b & 127)`  both give  `((x + 1) << 7) + (b & 127)`.
    Only plain and augmented assignments to names are composed; returns None when something else writes `var`."""
    import copy
    env: dict[str, ast.AST] = {}

    class Sub(ast.NodeTransformer):
        def visit_Name(self, node):
            if isinstance(node.ctx, ast.Load) and node.id in env:
                return copy.deepcopy(env[node.id])
            return node
    for s in stmts:
        if isinstance(s, ast.AugAssign) and isinstance(s.target, ast.Name):
            old = env.get(s.target.id, ast.Name(id=s.target.id, ctx=ast.Load()))
            env[s.target.id] = ast.BinOp(left=copy.deepcopy(old), op=s.op, right=Sub().visit(copy.deepcopy(s.value)))
        elif isinstance(s, ast.Assign) and len(s.targets) == 1 and isinstance(s.targets[0], ast.Name):
            env[s.targets[0].id] = Sub().visit(copy.deepcopy(s.value))
        elif isinstance(s, (ast.Expr, ast.Assert, ast.Pass)):
            continue
        else:
            if any(isinstance(x, ast.Name) and x.id == var and isinstance(x.ctx, ast.Store) for x in ast.walk(s)):
                return None
    return env.get(var)


def expr_key(e: ast.AST, folder=None) -> str:
    """A canonical text of an arithmetic expression: constants folded, operands of + | & ^ * ordered."""
    if e is None:
        return "?"
    if folder is not None:
        v = folder.try_fold(e)
        if isinstance(v, (int, bytes)) and not isinstance(v, bool):
            return repr(v)
    if isinstance(e, ast.Constant):
        return repr(e.value)
    if isinstance(e, ast.BinOp):
        l, r = expr_key(e.left, folder), expr_key(e.right, folder)
        op = type(e.op).__name__
        if isinstance(e.op, (ast.Add, ast.BitOr, ast.BitAnd, ast.BitXor, ast.Mult)):
            # flatten same-operator chains and sort
            def flat(x):
                if isinstance(x, ast.BinOp) and type(x.op) is type(e.op):
                    return flat(x.left) + flat(x.right)
                return [expr_key(x, folder)]
            return f"{op}(" + ",".join(sorted(flat(e))) + ")"
        return f"{op}({l},{r})"
    if isinstance(e, ast.UnaryOp):
        return f"{type(e.op).__name__}({expr_key(e.operand, folder)})"
    from sa.load import norm as _norm
    return _norm(e)


def exact_separator_discipline(rep, rule: str, mod, scope=None, skip=()):
    """Line and token framing of a byte format is by ONE named separator.  `bytes.splitlines()` also breaks at CR, VT, FF, FS,
    GS, RS, NEL... and drops a trailing empty line; an argument-less `split()` / `strip()`-and-split breaks at every ASCII
    whitespace byte.  Reports each such call in the module (or in the functions named by `scope`); `skip` names functions whose
    business is text content, not the format.  The detector is self-checked on every run."""
    probe = ast.parse("def f(x):\n    a = x.splitlines()\n    b = x.split()\n    c = x.split(b'\\n')\n")
    def hits(tree):
        return [c for c in ast.walk(tree) if isinstance(c, ast.Call) and isinstance(c.func, ast.Attribute) and
                ((c.func.attr == "splitlines") or (c.func.attr in ("split", "rsplit") and not c.args and not c.keywords))]
    if len(hits(probe)) != 2:
        from sa.load import AnalysisError
        raise AnalysisError(f"{rule}: separator-discipline detector self-check failed")
    from sa.load import norm as _norm
    found = []
    for c in hits(mod.tree):
        f = mod.enclosing_func(c)
        q = f.qual if f else "<module>"
        if any(q == s_ or q.startswith(s_ + ".") for s_ in skip):
            continue
        if scope is not None and not any(q == s_ or q.startswith(s_ + ".") for s_ in scope):
            continue
        found.append((q, c))
    rep.ob(rule, mod.rel, found[0][0] if found else "<module>", "framing uses one named separator: no splitlines(), no argument-less split()", not found,
           (f"`{_norm(found[0][1], 60)}` also splits at bytes the writer never uses as a separator (CR, VT, FF, ... / every whitespace byte) and "
            f"splitlines() drops a trailing empty line: data containing such a byte is framed differently on read and on write") if found else "",
           found[0][1].lineno if found else 0)
    return found


def wrapper_exc_behaviour(prog: Program) -> dict[str, dict]:
    """For every closing wrapper class (closing_wrappers): does `close()` close the wrapped object also on an EXCEPTIONAL path
    (inside a finally / handler), and does `__exit__` close it whatever the exception state?  For a wrapped lock file closing
    means committing, so either makes a failed write replace the protected file."""
    from .flow import reach
    from .cfg import EXC_LABELS as _EXC
    out = {}
    for cname, idx in closing_wrappers(prog).items():
        cls = prog.classes[cname][0]
        m = cls.module
        init = m.funcs.get(f"{cname}.__init__")
        ps = [a.arg for a in init.node.args.args][1:]
        attr = None
        for s in init.node.body:
            if isinstance(s, (ast.Assign, ast.AnnAssign)):
                tgt = s.targets[0] if isinstance(s, ast.Assign) else s.target
                if isinstance(tgt, ast.Attribute) and isinstance(s.value, ast.Name) and s.value.id in ps and ps.index(s.value.id) == idx:
                    attr = tgt.attr
        res = {"close_on_exc": False, "exit_closes_on_exc": False, "attr": attr}
        close = m.funcs.get(f"{cname}.close")
        if close is not None and attr:
            g = CFG(close.node)
            closers = {i for i, n in g.nodes.items() if n.kind == "stmt" for c in ast.walk(n.ast) if isinstance(c, ast.Call) and isinstance(c.func, ast.Attribute)
                       and c.func.attr == "close" and dotted(c.func.value) == f"self.{attr}"}
            exc_succ = [b for i in g.nodes for b, l in g.succ[i] if l in _EXC and i not in closers]
            r = reach(g, exc_succ, include_srcs=True) if exc_succ else set()
            res["close_on_exc"] = bool(closers & r)
        ex = m.funcs.get(f"{cname}.__exit__")
        if ex is not None and attr:
            calls = [c for c in ast.walk(ex.node) if isinstance(c, ast.Call) and isinstance(c.func, ast.Attribute) and c.func.attr == "close"
                     and dotted(c.func.value) in (f"self.{attr}", "self")]
            tests_exc = any(isinstance(t, ast.If) for t in ast.walk(ex.node))
            res["exit_closes_on_exc"] = bool(calls) and not tests_exc
        out[cname] = res
    return out


# ---------------------------------------------------------------- chunk-boundary insensitivity
BOUNDARY_SENSITIVE = {"splitlines", "split", "rsplit", "partition", "rpartition", "find", "rfind", "index", "rindex", "startswith",
                      "endswith", "strip", "lstrip", "rstrip", "decode", "count", "replace"}
CHUNK_SOURCES = ("chunked", "_chunked_text", "as_raw_chunks", "as_legacy_object_chunks")


def chunk_loops(mod):
    """(function, for-loop, loop variable) for every loop that walks an object's chunk list: `for c in x.chunked`,
    `for c in x.as_raw_chunks()`, or over a local name assigned from one of those."""
    out = []
    for q, f in mod.funcs.items():
        if "#" in q:
            continue
        chunkvars = set()
        for s_ in ast.walk(f.node):
            if isinstance(s_, ast.Assign) and len(s_.targets) == 1 and isinstance(s_.targets[0], ast.Name):
                v = s_.value.func if isinstance(s_.value, ast.Call) else s_.value
                if isinstance(v, ast.Attribute) and v.attr in CHUNK_SOURCES:
                    chunkvars.add(s_.targets[0].id)
        for l in ast.walk(f.node):
            if not isinstance(l, ast.For) or not isinstance(l.target, ast.Name) or mod.enclosing_func(l) is not f:
                continue
            it = l.iter.func if isinstance(l.iter, ast.Call) else l.iter
            if (isinstance(it, ast.Attribute) and it.attr in CHUNK_SOURCES) or (isinstance(l.iter, ast.Name) and l.iter.id in chunkvars):
                out.append((f, l, l.target.id))
    return out


def chunk_boundary_rule(rep, rule: str, mod, floor: int = 1):
    """The content of an object is the CONCATENATION of its chunks; where the boundaries fall is an accident of how it was
    produced (one chunk per delta command in the Python apply_delta, a single chunk in the Rust one).  A loop over the
    chunk list may therefore only do things that commute with concatenation (hash update, write, len, append/join); a
    per-chunk line split, search, prefix test, strip or decode gives an answer that depends on the chunking."""
    from sa.load import AnalysisError, norm
    probe = ast.parse("def f(o):\n    for c in o.chunked:\n        yield c.splitlines(True)\n")

    def sensitive(loop, var):
        return [c for c in ast.walk(loop) if isinstance(c, ast.Call) and isinstance(c.func, ast.Attribute) and c.func.attr in BOUNDARY_SENSITIVE
                and isinstance(c.func.value, ast.Name) and c.func.value.id == var]
    if len(sensitive(probe.body[0].body[0], "c")) != 1:
        raise AnalysisError(f"{rule}: detector self-check failed")
    loops = chunk_loops(mod)
    for f, l, var in loops:
        bad = sensitive(l, var)
        rep.ob(rule, mod.rel, f.qual, f"`for {var} in {norm(l.iter, 40)}`: only operations that commute with concatenation are applied per chunk", not bad,
               (f"`{norm(bad[0], 50)}` is evaluated per chunk: its result depends on where the chunk boundaries fall (a chunk may end in a newline, in the CR of "
                f"a CRLF, or inside a multi-byte character), and the Python and Rust apply_delta chunk the same content differently") if bad else "",
               (bad[0] if bad else l).lineno)
    if len(loops) < floor:
        raise AnalysisError(f"{rule}: expected >= {floor} loops over object chunk lists in {mod.rel}, found {len(loops)}")
    return len(loops)


# ---------------------------------------------------------------- scenario-restricted paths (three-valued tests)
def scenario_edge_filter(g, rd, atoms):
    """edge_ok for flow.reach/must_pass that keeps only the paths consistent with a SCENARIO.  `atoms(expr) -> True/False/None`
    gives the truth of the atomic tests the scenario fixes (None = not fixed).  Tests are evaluated three-valued through
    not/and/or/bool() and through names with a single reaching definition; an edge is cut only when its test is decided."""
    def ev(e, at, depth=0):
        v = atoms(e)
        if v is not None:
            return v
        if isinstance(e, ast.UnaryOp) and isinstance(e.op, ast.Not):
            x = ev(e.operand, at, depth)
            return None if x is None else (not x)
        if isinstance(e, ast.BoolOp):
            vals = [ev(x, at, depth) for x in e.values]
            if isinstance(e.op, ast.And):
                return False if any(x is False for x in vals) else (True if all(x is True for x in vals) else None)
            return True if any(x is True for x in vals) else (False if all(x is False for x in vals) else None)
        if isinstance(e, ast.Call) and isinstance(e.func, ast.Name) and e.func.id == "bool" and len(e.args) == 1:
            return ev(e.args[0], at, depth)
        if isinstance(e, ast.Name) and depth < 3:
            defs = rd[at].get(e.id, ())
            if len(defs) == 1:
                d = next(iter(defs))
                a = g.nodes[d].ast
                if isinstance(a, (ast.Assign, ast.AnnAssign)) and a.value is not None:
                    return ev(a.value, d, depth + 1)
        return None
    decided = {}
    for i, n in g.nodes.items():
        if n.kind == "test":
            v = ev(n.ast, i)
            if v is not None:
                decided[i] = "true" if v else "false"

    def edge_ok(a, b, l):
        return not (a in decided and l in ("true", "false") and l != decided[a])
    return edge_ok, decided
