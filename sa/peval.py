"""Partial evaluation of a function body under None-ness facts about parameters.

Abstract values: (noneness, truth) with noneness in {NONE, NOTNONE, UNK} and truth in {True, False, None}.
Used by R16.1: under "old_ref is None" no `return False` may be reachable.
"""
from __future__ import annotations

import ast

NONE, NOTNONE, UNK = "None", "NotNone", "Unknown"


def ev(e: ast.AST, env: dict) -> tuple[str, bool | None]:
    if isinstance(e, ast.Constant):
        return (NONE if e.value is None else NOTNONE, bool(e.value))
    if isinstance(e, ast.Name):
        v = env.get(e.id, UNK)
        return (v, False if v == NONE else None)
    if isinstance(e, ast.IfExp):
        _, t = ev(e.test, env)
        if t is True:
            return ev(e.body, env)
        if t is False:
            return ev(e.orelse, env)
        a, b = ev(e.body, env), ev(e.orelse, env)
        return (a[0] if a[0] == b[0] else UNK, a[1] if a[1] == b[1] else None)
    if isinstance(e, ast.Compare) and len(e.ops) == 1:
        l, r = ev(e.left, env), ev(e.comparators[0], env)
        op = e.ops[0]
        if isinstance(op, (ast.Is, ast.IsNot)):
            lit_right = isinstance(e.comparators[0], ast.Constant) and e.comparators[0].value is None
            lit_left = isinstance(e.left, ast.Constant) and e.left.value is None
            if lit_right or lit_left:
                other = l if lit_right else r
                if other[0] == NONE:
                    res = True
                elif other[0] == NOTNONE:
                    res = False
                else:
                    return (NOTNONE, None)
                return (NOTNONE, res if isinstance(op, ast.Is) else (not res))
        return (NOTNONE, None)
    if isinstance(e, ast.BoolOp):
        vals = [ev(v, env)[1] for v in e.values]
        if isinstance(e.op, ast.And):
            if any(v is False for v in vals):
                return (UNK, False)
            if all(v is True for v in vals):
                return (UNK, True)
        else:
            if any(v is True for v in vals):
                return (UNK, True)
            if all(v is False for v in vals):
                return (UNK, False)
        return (UNK, None)
    if isinstance(e, ast.UnaryOp) and isinstance(e.op, ast.Not):
        t = ev(e.operand, env)[1]
        return (NOTNONE, None if t is None else (not t))
    return (UNK, None)


def reachable_returns(stmts, env: dict, out: list, pred) -> bool:
    """Walk statements under ``env``; append to ``out`` every reachable ``return`` for which
    ``pred(return_stmt)`` holds.  Returns True if control may fall through."""
    for s in stmts:
        if isinstance(s, ast.Return):
            if pred(s):
                out.append(s)
            return False
        if isinstance(s, ast.Raise):
            return False
        if isinstance(s, ast.If):
            t = ev(s.test, env)[1]
            ft = fe = False
            if t is not False:
                e1 = dict(env)
                ft = reachable_returns(s.body, e1, out, pred)
            if t is not True:
                e2 = dict(env)
                fe = reachable_returns(s.orelse, e2, out, pred) if s.orelse else True
            if t is True:
                env.update(e1) if ft else None
            elif t is False:
                env.update(e2) if (fe and s.orelse) else None
            else:
                # join: keep only facts that agree
                if ft and fe and s.orelse:
                    for k in list(env):
                        if e1.get(k) != e2.get(k):
                            env[k] = UNK
                    for k in set(e1) | set(e2):
                        if k not in env:
                            env[k] = e1.get(k) if e1.get(k) == e2.get(k) else UNK
                elif ft and not fe:
                    env.clear(); env.update(e1)
                elif fe and not ft and s.orelse:
                    env.clear(); env.update(e2)
                elif ft and fe:
                    for k in list(env):
                        if e1.get(k, UNK) != env.get(k):
                            env[k] = UNK
            if not (ft or fe):
                return False
        elif isinstance(s, (ast.With, ast.AsyncWith)):
            if not reachable_returns(s.body, env, out, pred):
                return False
        elif isinstance(s, ast.Try):
            snapshot = dict(env)
            a = reachable_returns(s.body, env, out, pred)
            for h in s.handlers:
                he = {k: UNK if env.get(k) != snapshot.get(k) else v for k, v in snapshot.items()}
                # assignments inside the try body may or may not have happened
                for k in env:
                    if k not in he:
                        he[k] = UNK
                hb = reachable_returns(h.body, he, out, pred)
                if hb:
                    for k in list(env):
                        if he.get(k) != env.get(k):
                            env[k] = UNK
                a = hb or a
            if s.orelse and a:
                a = reachable_returns(s.orelse, env, out, pred)
            if s.finalbody:
                if not reachable_returns(s.finalbody, env, out, pred):
                    return False
            if not a:
                return False
        elif isinstance(s, (ast.For, ast.AsyncFor, ast.While)):
            be = {k: UNK for k in env}   # loop body: facts about reassigned names are unknown
            for k, v in env.items():
                if not any(isinstance(x, ast.Name) and x.id == k and isinstance(x.ctx, ast.Store) for x in ast.walk(s)):
                    be[k] = v
            reachable_returns(s.body, be, out, pred)
            for k in env:
                if be.get(k) != env[k]:
                    env[k] = UNK
            if s.orelse:
                reachable_returns(s.orelse, env, out, pred)
        elif isinstance(s, ast.Assign) and len(s.targets) == 1 and isinstance(s.targets[0], ast.Name):
            env[s.targets[0].id] = ev(s.value, env)[0]
        elif isinstance(s, ast.AnnAssign) and isinstance(s.target, ast.Name) and s.value is not None:
            env[s.target.id] = ev(s.value, env)[0]
        elif isinstance(s, ast.AugAssign) and isinstance(s.target, ast.Name):
            env[s.target.id] = UNK
    return True
