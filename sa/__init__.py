"""Static-analysis engine for the dulwich property checks (pure stdlib)."""
